----------------------------- MODULE G3DMeasure -----------------------------
(***************************************************************************)
(* Exact measures.  Irrational values are carried symbolically:            *)
(*   squared length / distance  <<num, den>>  (the value is its sqrt)      *)
(*   area   [rs |-> <<N1,..>>, den |-> D]     (the value is sum sqrt(Ni)/D)*)
(*   volume <<num, den>>                       (a rational)                *)
(* Dist2 is the exact squared Euclidean distance for the documented pairs. *)
(***************************************************************************)
EXTENDS G3DInter

LCM(a, b) == (a \div GCD(a, b)) * b
RECURSIVE LCMSeq(_)
LCMSeq(s) == IF s = <<>> THEN 1 ELSE LCM(Head(s), LCMSeq(Tail(s)))
CommonDen(S) == LCMSeq([i \in 1..Cardinality(S) |-> SetToSeq(S)[i][4]])
\* integer coordinates of P in units of 1/D  (D a multiple of P.w)
ScaleTo(P, D) == Scale(D \div P[4], XYZ(P))
MaxAbs(v) == Max(Max(Abs(v[1]), Abs(v[2])), Abs(v[3]))

\* ---- lengths
Len2(o) == HDist2(o.a, o.b)                                              \* Segment
EdgeLen2s(cyc) == [i \in 1..Len(cyc) |-> HDist2(cyc[i], cyc[IF i = Len(cyc) THEN 1 ELSE i + 1])]

\* ---- area of a planar convex cycle: |sum v_i x v_{i+1}| / 2  (Newell), on integer coordinates
RECURSIVE NewellFrom(_, _)
NewellFrom(pts, i) == IF i > Len(pts) THEN Zero3
                      ELSE Add(Cross(pts[i], pts[IF i = Len(pts) THEN 1 ELSE i + 1]), NewellFrom(pts, i + 1))
Newell(pts) == NewellFrom(pts, 1)
\* area^2 * 4 * D^4 for a cycle of homogeneous points with common denominator D
AreaRad(cyc, D) == Norm2(Newell([i \in 1..Len(cyc) |-> ScaleTo(cyc[i], D)]))

\* ---- 6 * volume of a polyhedron with outward ccw faces, on integer coordinates: sum of fan determinants
RECURSIVE FanFrom(_, _)
FanFrom(pts, i) == IF i + 1 > Len(pts) THEN 0 ELSE Det3(pts[1], pts[i], pts[i + 1]) + FanFrom(pts, i + 1)
FaceVol6(cyc, D) == FanFrom([i \in 1..Len(cyc) |-> ScaleTo(cyc[i], D)], 2)
RECURSIVE SumFaces(_, _)
SumFaces(fseq, D) == IF fseq = <<>> THEN 0 ELSE FaceVol6(Head(fseq).cyc, D) + SumFaces(Tail(fseq), D)
Vol6Scaled(body, D) == SumFaces(SetToSeq(body.fs), D)                    \* = 6 * volume * D^3

\* budget: are the scaled integer coordinates small enough for 32-bit determinants / radicands ?
Small(V, bound) == LET D == CommonDen(V) IN D <= bound /\ \A P \in V : MaxAbs(ScaleTo(P, D)) <= bound

\* measures of an object as emitted to the harness (0 denominators = "not evaluated in 32 bits")
Measures(o) ==
  CASE o.k = "Segment" -> [len2 |-> <<Len2(o)>>]
    [] o.k = "Polygon" ->
         LET V == Range(o.cyc) D == CommonDen(V)
         IN IF Small(V, 30) THEN [len2 |-> EdgeLen2s(o.cyc), area |-> [rs |-> <<AreaRad(o.cyc, D)>>, den |-> 2 * D * D]]
            ELSE [len2 |-> <<>>, area |-> [rs |-> <<>>, den |-> 0]]
    [] o.k = "Polyhedron" ->
         LET D == CommonDen(o.vs)  fseq == SetToSeq(o.fs)
         IN IF Small(o.vs, 30)
            THEN [area |-> [rs |-> [i \in 1..Len(fseq) |-> AreaRad(fseq[i].cyc, D)], den |-> 2 * D * D],
                  vol  |-> R(Vol6Scaled(o, D), 6 * D * D * D)]
            ELSE [area |-> [rs |-> <<>>, den |-> 0], vol |-> <<0, 0>>]
    [] OTHER -> [none |-> TRUE]

---------------------------------------------------------------------------
\* exact squared distance for the documented pairs (Point/Line/Plane)
DistPointLine2(P, l)  == LET w == HDiff(P, l.p) c == P[4] * l.p[4] IN R(Norm2(Cross(w, l.u)), c * c * Norm2(l.u))
DistPointPlane2(P, pl) == LET w == HDiff(P, pl.p) c == P[4] * pl.p[4] d == Dot(w, pl.n) IN R(d * d, c * c * Norm2(pl.n))
DistLineLine2(l, m)   == LET n == Cross(l.u, m.u)
                         IN IF n = Zero3 THEN DistPointLine2(l.p, m)
                            ELSE LET w == HDiff(m.p, l.p) c == l.p[4] * m.p[4] d == Dot(w, n) IN R(d * d, c * c * Norm2(n))
DistSupported(a, b) == {a.k, b.k} \in {{"Point"}, {"Point", "Line"}, {"Line"}, {"Point", "Plane"}, {"Line", "Plane"}}
Dist2(a, b) ==
  CASE a.k = "Point" /\ b.k = "Point" -> HDist2(a.p, b.p)
    [] a.k = "Point" /\ b.k = "Line"  -> DistPointLine2(a.p, b)
    [] a.k = "Line"  /\ b.k = "Point" -> DistPointLine2(b.p, a)
    [] a.k = "Line"  /\ b.k = "Line"  -> DistLineLine2(a, b)
    [] a.k = "Point" /\ b.k = "Plane" -> DistPointPlane2(a.p, b)
    [] a.k = "Plane" /\ b.k = "Point" -> DistPointPlane2(b.p, a)
    [] a.k = "Line"  /\ b.k = "Plane" -> IF Dot(a.u, b.n) = 0 THEN DistPointPlane2(a.p, b) ELSE <<0, 1>>
    [] a.k = "Plane" /\ b.k = "Line"  -> IF Dot(b.u, a.n) = 0 THEN DistPointPlane2(b.p, a) ELSE <<0, 1>>
=============================================================================
