------------------------------ MODULE G3DMem ------------------------------
(***************************************************************************)
(* L0 denotation: Mem(P, o) -- is the rational point P a point of o ?      *)
(* Straight from the meaning of each type, by cross-multiplication on      *)
(* homogeneous coordinates (no division).  L1: Subset(x, S).               *)
(***************************************************************************)
EXTENDS G3DObj

OnLine(P, Q, u) == Cross(HDiff(P, Q), u) = Zero3

Mem(P, o) ==
  CASE o.k = "None"       -> FALSE
    [] o.k = "Point"      -> P = o.p
    [] o.k = "Line"       -> OnLine(P, o.p, o.u)
    [] o.k = "HalfLine"   -> OnLine(P, o.p, o.u) /\ Dot(HDiff(P, o.p), o.u) >= 0
    [] o.k = "Segment"    -> LET d == HDiff(o.b, o.a)
                             IN OnLine(P, o.a, d) /\ Dot(HDiff(P, o.a), d) >= 0 /\ Dot(HDiff(P, o.b), d) <= 0
    [] o.k = "Plane"      -> Dot(HDiff(P, o.p), o.n) = 0
    [] o.k = "Polygon"    -> /\ Dot(HDiff(P, o.cyc[1]), o.n) = 0
                             /\ \A i \in 1..Len(o.cyc) :
                                  LET i2 == IF i = Len(o.cyc) THEN 1 ELSE i + 1
                                  IN Dot(Cross(o.n, HDiff(o.cyc[i2], o.cyc[i])), HDiff(P, o.cyc[i])) >= 0
    [] o.k = "Polyhedron" -> \A f \in o.fs : HSide(P, f.n, f.d) <= 0

\* generators of a (pointed or not) object: finitely many points and recession directions
GenPoints(o) ==
  CASE o.k = "Point" -> {o.p} [] o.k = "Line" -> {o.p} [] o.k = "HalfLine" -> {o.p}
    [] o.k = "Segment" -> {o.a, o.b} [] o.k = "Plane" -> {o.p}
    [] o.k = "Polygon" -> Range(o.cyc) [] o.k = "Polyhedron" -> o.vs [] OTHER -> {}
GenDirs(o) ==
  CASE o.k = "Line" -> {o.u, Neg(o.u)} [] o.k = "HalfLine" -> {o.u}
    [] o.k = "Plane" -> {Perp1(o.n), Neg(Perp1(o.n)), Perp2(o.n), Neg(Perp2(o.n))}
    [] OTHER -> {}
\* is direction r a recession direction of S ?
RecDir(r, S) ==
  CASE S.k = "Line" -> ParallelV(r, S.u)
    [] S.k = "HalfLine" -> ParallelV(r, S.u) /\ Dot(r, S.u) > 0
    [] S.k = "Plane" -> Dot(r, S.n) = 0
    [] OTHER -> FALSE
\* L1: every point of x belongs to S  (x, S convex: generators suffice)
Subset(x, S) == x.k # "None" /\ (\A P \in GenPoints(x) : Mem(P, S)) /\ (\A r \in GenDirs(x) : RecDir(r, S))

\* position class of a point relative to an object (coverage accounting)
PosClass(P, o) ==
  IF ~Mem(P, o) THEN
     (CASE o.k \in {"HalfLine", "Segment"} -> IF OnLine(P, Base(o), Dir(o)) THEN "OnCarrierOutside" ELSE "Outside"
        [] o.k = "Polygon" -> IF Dot(HDiff(P, o.cyc[1]), o.n) = 0 THEN "OnCarrierOutside" ELSE "Outside"
        [] OTHER -> "Outside")
  ELSE
     (CASE o.k = "HalfLine" -> IF P = o.p THEN "OnEndpoint" ELSE "Interior"
        [] o.k = "Segment"  -> IF P \in {o.a, o.b} THEN "OnEndpoint" ELSE "Interior"
        [] o.k = "Polygon"  -> IF P \in Range(o.cyc) THEN "OnVertex"
                               ELSE IF \E h \in EdgeHS(o.cyc, o.n) : OnBoundary(P, h) THEN "OnEdge" ELSE "Interior"
        [] o.k = "Polyhedron" -> LET nt == Cardinality({f \in o.fs : HSide(P, f.n, f.d) = 0})
                                 IN IF P \in o.vs THEN "OnVertex" ELSE IF nt >= 2 THEN "OnEdge"
                                    ELSE IF nt = 1 THEN "OnFace" ELSE "Interior"
        [] OTHER -> "On")
===========================================================================
