------------------------------ MODULE G3DInter -----------------------------
(***************************************************************************)
(* L1: the exact intersection of two objects, defined twice:               *)
(*   InterAnalytic  -- closed formulas for the flat pairs and parameter    *)
(*                     clipping of 1-D operands against convex operands;   *)
(*   InterGeneric   -- vertex enumeration on the union of the two          *)
(*                     constraint systems (defined whenever the common     *)
(*                     set is pointed, i.e. contains no whole line).       *)
(* Inter(a, b) is the generic one except for the four Line/Plane pairs.    *)
(***************************************************************************)
EXTENDS G3DMem

---------------------------------------------------------------------------
\* Parameter ranges of 1-D objects:  { P + t * U : lo <= t <= hi }
\*   U(o): the parameter direction;  for a Segment U = HDiff(b, a), so that b = a + U / (a.w * b.w)
U(o) == IF o.k = "Segment" THEN HDiff(o.b, o.a) ELSE o.u
Rng(o) == CASE o.k = "Line"     -> [hasLo |-> FALSE, lo |-> <<0, 1>>, hasHi |-> FALSE, hi |-> <<0, 1>>]
            [] o.k = "HalfLine" -> [hasLo |-> TRUE,  lo |-> <<0, 1>>, hasHi |-> FALSE, hi |-> <<0, 1>>]
            [] o.k = "Segment"  -> [hasLo |-> TRUE,  lo |-> <<0, 1>>, hasHi |-> TRUE,  hi |-> R(1, o.a[4] * o.b[4])]
InRng(t, r) == (~r.hasLo \/ RLeq(r.lo, t)) /\ (~r.hasHi \/ RLeq(t, r.hi))
RngMeet(r, s) == [hasLo |-> r.hasLo \/ s.hasLo,
                  lo    |-> IF r.hasLo /\ s.hasLo THEN RMax(r.lo, s.lo) ELSE IF r.hasLo THEN r.lo ELSE s.lo,
                  hasHi |-> r.hasHi \/ s.hasHi,
                  hi    |-> IF r.hasHi /\ s.hasHi THEN RMin(r.hi, s.hi) ELSE IF r.hasHi THEN r.hi ELSE s.hi]
\* the object { P + t u : t in r }
FromRng(P, u, r) ==
  IF r.hasLo /\ r.hasHi THEN
       IF RLess(r.hi, r.lo) THEN NoneObj
       ELSE IF r.lo = r.hi THEN MkPoint(PointAt(P, u, r.lo))
       ELSE MkSegment(PointAt(P, u, r.lo), PointAt(P, u, r.hi))
  ELSE IF r.hasLo THEN MkHalfLine(PointAt(P, u, r.lo), Prim(u))
  ELSE IF r.hasHi THEN MkHalfLine(PointAt(P, u, r.hi), Neg(Prim(u)))
  ELSE MkLine(P, Prim(u))

\* image of the range s (parameter of the line Q + s v) in the parameter of the collinear line P + t u
MapRng(s, t0, k) ==
  LET f(x) == RAdd(t0, RMul(k, x))
  IN IF RSign(k) > 0 THEN [hasLo |-> s.hasLo, lo |-> f(s.lo), hasHi |-> s.hasHi, hi |-> f(s.hi)]
     ELSE [hasLo |-> s.hasHi, lo |-> f(s.hi), hasHi |-> s.hasLo, hi |-> f(s.lo)]

Inter11(a, b) ==
  LET P == Base(a)  u == U(a)  Q == Base(b)  v == U(b)
      w == HDiff(Q, P)   c == P[4] * Q[4]          \* Q - P = w / c
  IN IF ParallelV(u, v) THEN
        IF Cross(w, u) # Zero3 THEN NoneObj
        ELSE LET uu == Norm2(u)
                 t0 == R(Dot(w, u), c * uu)
                 k  == R(Dot(v, u), uu)
             IN FromRng(P, u, RngMeet(Rng(a), MapRng(Rng(b), t0, k)))
     ELSE IF Det3(w, u, v) # 0 THEN NoneObj
     ELSE LET uv == Cross(u, v)   nn == Norm2(uv)
              t  == R(Dot(Cross(w, v), uv), c * nn)
              s  == R(Dot(Cross(w, u), uv), c * nn)
          IN IF InRng(t, Rng(a)) /\ InRng(s, Rng(b)) THEN MkPoint(PointAt(P, u, t)) ELSE NoneObj

Inter1Plane(a, pl) ==
  LET P == Base(a)  u == U(a)  dn == Dot(u, pl.n)
      w == HDiff(pl.p, P)  c == P[4] * pl.p[4]
  IN IF dn = 0 THEN (IF Dot(w, pl.n) = 0 THEN a ELSE NoneObj)
     ELSE LET t == R(Dot(w, pl.n), c * dn)
          IN IF InRng(t, Rng(a)) THEN MkPoint(PointAt(P, u, t)) ELSE NoneObj

InterPlanePlane(a, b) ==
  LET u == Cross(a.n, b.n)
  IN IF u = Zero3 THEN (IF Dot(HDiff(b.p, a.p), a.n) = 0 THEN a ELSE NoneObj)
     ELSE MkLine(Sol(HS(a.n, a.p), HS(b.n, b.p), [n |-> u, d |-> 0]), Prim(u))

\* clipping a 1-D object against the half-spaces H of a convex operand
Clip(a, H) ==
  LET P == Base(a)  u == U(a)
      \* h.n . (P + t u) <= h.d   <=>   (h.n.u) t <= (h.d*W - h.n.Pxyz)/W
      A(h) == Dot(h.n, u)
      B(h) == R(h.d * P[4] - Dot(h.n, XYZ(P)), P[4])
      infeasible == \E h \in H : A(h) = 0 /\ RSign(B(h)) < 0
      ups == { RDiv(B(h), RInt(A(h))) : h \in { h \in H : A(h) > 0 } }
      los == { RDiv(B(h), RInt(A(h))) : h \in { h \in H : A(h) < 0 } }
      rH  == [hasLo |-> los # {}, lo |-> IF los # {} THEN RSetMax(los) ELSE <<0, 1>>,
              hasHi |-> ups # {}, hi |-> IF ups # {} THEN RSetMin(ups) ELSE <<0, 1>>]
  IN IF infeasible THEN NoneObj ELSE FromRng(P, u, RngMeet(Rng(a), rH))

InterAnalytic(a, b) ==
  CASE a.k = "None" \/ b.k = "None"      -> NoneObj
    [] a.k = "Point"                      -> IF Mem(a.p, b) THEN a ELSE NoneObj
    [] b.k = "Point"                      -> IF Mem(b.p, a) THEN b ELSE NoneObj
    [] Is1D(a) /\ Is1D(b)                 -> Inter11(a, b)
    [] Is1D(a) /\ b.k = "Plane"           -> Inter1Plane(a, b)
    [] a.k = "Plane" /\ Is1D(b)           -> Inter1Plane(b, a)
    [] a.k = "Plane" /\ b.k = "Plane"     -> InterPlanePlane(a, b)
    [] Is1D(a) /\ b.k \in BodyKinds       -> Clip(a, Cons(b))
    [] a.k \in BodyKinds /\ Is1D(b)       -> Clip(b, Cons(a))
HasAnalytic(a, b) == \/ a.k = "None" \/ b.k = "None" \/ a.k = "Point" \/ b.k = "Point"
                     \/ (a.k \in FlatKinds /\ b.k \in FlatKinds)
                     \/ (Is1D(a) /\ b.k \in BodyKinds) \/ (a.k \in BodyKinds /\ Is1D(b))

---------------------------------------------------------------------------
\* Generic definition by vertex enumeration
Pointed(a, b) == ~(a.k \in {"Line", "Plane"} /\ b.k \in {"Line", "Plane"})
RayCands(a, b) == (IF a.k = "HalfLine" THEN {Prim(a.u)} ELSE {}) \cup (IF b.k = "HalfLine" THEN {Prim(b.u)} ELSE {})
Rays(a, b, H)  == { r \in RayCands(a, b) : \A h \in H : Dot(h.n, r) <= 0 }

FromVerts(V, H, rays) ==
  IF V = {} THEN NoneObj
  ELSE IF rays # {} THEN MkHalfLine(CHOOSE P \in V : TRUE, CHOOSE r \in rays : TRUE)
  ELSE LET rk == AffRank(V)
       IN CASE rk = 0 -> MkPoint(CHOOSE P \in V : TRUE)
            [] rk = 1 -> LET A == CHOOSE P \in V : TRUE IN MkSegment(A, CHOOSE Q \in V \ {A} : TRUE)
            [] rk = 2 -> HullPolygon(V)
            [] rk = 3 -> BodyFrom(V, H)

InterGeneric(a, b) ==
  IF a.k = "None" \/ b.k = "None" THEN NoneObj
  ELSE LET H == Cons(a) \cup Cons(b) IN FromVerts(Verts(H), H, Rays(a, b, H))
Inter3Generic(a, b, c) ==
  IF a.k = "None" \/ b.k = "None" \/ c.k = "None" THEN NoneObj
  ELSE LET H == Cons(a) \cup Cons(b) \cup Cons(c)
           rc == { r \in RayCands(a, b) \cup RayCands(b, c) : \A h \in H : Dot(h.n, r) <= 0 }
       IN FromVerts(Verts(H), H, rc)

\* the analytic definition wherever it exists (it is much cheaper to evaluate), the generic one elsewhere;
\* the model configurations check that the two agree wherever both are defined
Inter(a, b) == IF HasAnalytic(a, b) THEN InterAnalytic(a, b) ELSE InterGeneric(a, b)

\* well-formedness of a generic result (sanity of the oracle itself)
GenericSane(a, b) ==
  LET H == Cons(a) \cup Cons(b)  V == Verts(H)  rays == Rays(a, b, H)
  IN /\ (rays # {} /\ V # {}) => Cardinality(V) = 1
     /\ Cardinality(rays) <= 1
     /\ (V # {} /\ rays = {} /\ AffRank(V) = 1) => Cardinality(V) = 2

---------------------------------------------------------------------------
\* Documented result kinds per unordered pair (docs/source/example_operation.rst)
K7 == {"Point", "Line", "Plane", "Segment", "HalfLine", "Polygon", "Polyhedron"}
DocKinds(ka, kb) ==
  LET p == {ka, kb}
  IN CASE p = {"Point"} -> {"None", "Point"}
       [] "Point" \in p -> {"None", "Point"}
       [] p = {"Line"} -> {"None", "Point", "Line"}
       [] p = {"Line", "Plane"} -> {"None", "Point", "Line"}
       [] p = {"Line", "Segment"} -> {"None", "Point", "Segment"}
       [] p = {"Line", "HalfLine"} -> {"None", "Point", "HalfLine"}
       [] p = {"Line", "Polygon"} -> {"None", "Point", "Segment"}
       [] p = {"Line", "Polyhedron"} -> {"None", "Point", "Segment"}
       [] p = {"Plane"} -> {"None", "Line", "Plane"}
       [] p = {"Plane", "Segment"} -> {"None", "Point", "Segment"}
       [] p = {"Plane", "HalfLine"} -> {"None", "Point", "HalfLine"}
       [] p = {"Plane", "Polygon"} -> {"None", "Point", "Segment", "Polygon"}
       [] p = {"Plane", "Polyhedron"} -> {"None", "Point", "Segment", "Polygon"}
       [] p = {"Segment"} -> {"None", "Point", "Segment"}
       [] p = {"Segment", "HalfLine"} -> {"None", "Point", "Segment"}
       [] p = {"Segment", "Polygon"} -> {"None", "Point", "Segment"}
       [] p = {"Segment", "Polyhedron"} -> {"None", "Point", "Segment"}
       [] p = {"HalfLine"} -> {"None", "Point", "Segment", "HalfLine"}
       [] p = {"HalfLine", "Polygon"} -> {"None", "Point", "Segment"}
       [] p = {"HalfLine", "Polyhedron"} -> {"None", "Point", "Segment"}
       [] p = {"Polygon"} -> {"None", "Point", "Segment", "Polygon"}
       [] p = {"Polygon", "Polyhedron"} -> {"None", "Point", "Segment", "Polygon"}
       [] p = {"Polyhedron"} -> {"None", "Point", "Segment", "Polygon", "Polyhedron"}

\* relative-position flags used for stratification and coverage accounting
RelFlags(a, b, res) ==
  LET par == IF Is1D(a) /\ Is1D(b) THEN ParallelV(Dir(a), Dir(b))
             ELSE IF Is1D(a) /\ b.k = "Plane" THEN Dot(Dir(a), b.n) = 0
             ELSE IF a.k = "Plane" /\ Is1D(b) THEN Dot(Dir(b), a.n) = 0
             ELSE IF a.k = "Plane" /\ b.k = "Plane" THEN ParallelV(a.n, b.n) ELSE FALSE
      touch == res.k = "Point" /\ (res.p \in Vertices(a) \cup Vertices(b)
                                    \/ (a.k = "HalfLine" /\ res.p = a.p) \/ (b.k = "HalfLine" /\ res.p = b.p))
  IN <<a.k, b.k, res.k, par, touch>>
===========================================================================
