------------------------------ MODULE MC_Build ------------------------------
(***************************************************************************)
(* Construction cases (C09) with their exact measures (C06): a catalogue   *)
(* or general-hull body presented in some vertex / face order, with        *)
(* duplicates and with arbitrary face orientations.                        *)
(***************************************************************************)
EXTENDS G3DCtor, TLC, Json
CONSTANTS S, BODIES, GENK, GENC, SEED, NSHARD, NGEN
VARIABLES ph, body, form
vars == <<ph, body, form>>
NoForm == [perm |-> <<>>, dup |-> 0, rev |-> {}]

\* general hulls are selected by a cheap shard on the raw subset *before* the expensive convex-position test,
\* and the hull is computed in a transition so that all workers share the work
GenSeeds == UNION { { V \in { { LP(Scale(S, v)) : v \in W } : W \in kSubset(k, Cube3(GENC)) } : Mix(CodeSet(V), SEED) % NGEN = 0 } : k \in GENK }
Seeds == { [k |-> "Name", nm |-> nm] : nm \in BODIES } \cup { [k |-> "Verts", vs |-> V] : V \in GenSeeds }
FaceSeq(b) == SetToSeq(b.fs)
FormsOf(b) ==
  IF b.k = "Polygon"
  THEN { [perm |-> p, dup |-> d, rev |-> {}] : p \in PermsFor(Len(b.cyc)), d \in 0..4 }
  ELSE LET n == Cardinality(b.fs)
           masks == { {}, 1..n, { i \in 1..n : i % 2 = 0 }, { i \in 1..n : i % 3 = 1 }, {1}, {n} }
       IN { [perm |-> p, dup |-> 0, rev |-> m] : p \in AffinePerms(n) \cup { [i \in 1..n |-> n + 1 - i] }, m \in masks }

Init == ph = 0 /\ body \in Seeds /\ form = NoForm
Next == \/ ph = 0 /\ ph' = 1 /\ form' = form
           /\ IF body.k = "Name" THEN body' = Body(body.nm, S)
              ELSE \* "= TRUE": evaluate as a plain boolean (TLC would otherwise branch on every witness of the \E inside)
                   (FullDim(body.vs) /\ ConvexPos3(body.vs)) = TRUE /\ body' = HullBody(body.vs)
        \/ ph = 1 /\ ph' = 2 /\ body' = body
           /\ form' \in { f \in FormsOf(body) : InShard(MkPoint(LP(<<Len(f.perm), f.dup, Cardinality(f.rev)>>)), MkSegment(LP(<<f.perm[1], f.perm[2], f.perm[Len(f.perm)]>>), LP(Zero3)), SEED, NSHARD) }
Spec == Init /\ [][Next]_vars

Input == WithDup(ApplyPerm(body.cyc, form.perm), form.dup)            \* polygons only
\* ---- the specification's own order independence
PolygonOrderFree == (ph = 2 /\ body.k = "Polygon") =>
                      LET p == MakePolygon(Input)
                      IN Range(p.cyc) = Range(body.cyc) /\ ParallelV(p.n, body.n) /\ PolygonSane(p)
                         /\ SameSet(NegPolygon(p), p) /\ NegPolygon(NegPolygon(p)) = p
PolyhedronOrderFree == (ph = 2 /\ body.k = "Polyhedron") =>
                      /\ FlipL2OK(body, { FaceSeq(body)[i] : i \in form.rev })
                      /\ CentroidInside(body) /\ BodySane(body)
\* measures do not depend on the presentation (they are functions of the abstract body) and are positive
MeasuresPositive == ph = 1 => LET m == Measures(body) IN
                      IF body.k = "Polygon" THEN m.area.rs[1] > 0 ELSE m.vol[1] > 0
\* exact pyramid decomposition used by the library: sum over faces of area * height / 3 from the centroid = volume
\* (checked on the specification through 6V = sum_f  (d_f |V| - n_f . sum V) * |N_f| / (|n_f| |V|), with |N_f| = k |n_f|)
\* for every face a pyramid over it with a body vertex as apex: exact squared height
Pyramids == LET fq == FaceSeq(body)
            IN [i \in 1..Len(fq) |-> LET ap == CHOOSE v \in body.vs : ~OnBoundary(v, [n |-> fq[i].n, d |-> fq[i].d])
                                    IN [apex |-> ap, h2 |-> DistPointPlane2(ap, MkPlane(fq[i].cyc[1], fq[i].n))]]
Emit == ph < 2 \/ PrintT(ToJson([body |-> body, faces |-> IF body.k = "Polyhedron" THEN FaceSeq(body) ELSE <<>>, s |-> S,
                                 form |-> [perm |-> form.perm, dup |-> form.dup, rev |-> form.rev], m |-> Measures(body),
                                 pyr |-> IF body.k = "Polyhedron" THEN Pyramids ELSE <<>>]))
=============================================================================
