---------------------------- MODULE MC_BodyBody ----------------------------
(***************************************************************************)
(* Body x body cases (C03): catalogue bodies, the second one translated by *)
(* every vector of a small box in half-lattice units (S = 2), so that      *)
(* overlapping, nested, coplanar, face-, edge- and vertex-touching and     *)
(* disjoint positions all occur.  The expected value is the generic        *)
(* (vertex enumeration) intersection together with its exact measures.     *)
(***************************************************************************)
EXTENDS G3DBodies, G3DMeasure, G3DAlg, TLC, Json
CONSTANTS S, SA, OFF, BODIES1, BODIES2, T, SEED, NSHARD, GENK, NGEN, NL2
VARIABLES ph, a, b, t, r      \* r: the exact intersection, computed once per case
vars == <<ph, a, b, t, r>>
\* three levels: first body, second body (untranslated), translation
\* the first body at scale SA (SA > S gives nested pairs), the second at scale S translated by OFF*(1,1,1) + t, t in the T-box
Init == ph = 1 /\ a \in { Body(nm, SA) : nm \in BODIES1 } \cup GenHullSample(GENK, 2, S, SEED, NGEN) /\ b = NoneObj /\ t = Zero3 /\ r = NoneObj
Next == \/ ph = 1 /\ ph' = 2 /\ a' = a /\ b' \in { Body(nm, S) : nm \in BODIES2 } \cup GenHullSample(GENK, 2, S, SEED + 1, NGEN) /\ t' = t /\ r' = r
        \/ ph = 2 /\ ph' = 3 /\ a' = a /\ b' = b /\ t' \in { x \in Box(T) : InShard3(a, b, x, SEED, NSHARD) }
           /\ r' = InterGeneric(a, Translate(b, Add(t', <<OFF, OFF, OFF>>)))
Spec == Init /\ [][Next]_vars

B2  == Translate(b, Add(t, <<OFF, OFF, OFF>>))
Typed     == ph = 3 => r.k \in DocKinds(a.k, b.k)
Symmetric == ph = 3 => SameSet(r, InterGeneric(B2, a))
InBoth    == ph = 3 => (r.k # "None" => Subset(r, a) /\ Subset(r, B2))
ResultSane == ph = 3 => (r.k = "Polyhedron" => BodySane(r)) /\ (r.k = "Polygon" => PolygonSane(r))
\* maximality on probes: a half-lattice point of a's bounding box that lies in both operands lies in the result
Probes == { LP(p) : p \in BBoxPts(Vertices(a), 0) }
ProbesAgree == ph = 3 => LET bb == B2 IN \A P \in Probes : Mem(P, r) <=> (Mem(P, a) /\ Mem(P, bb))
\* the volume of the common part cannot exceed either operand's
VolMonotone == ph = 3 =>
                 ((r.k = "Polyhedron" /\ a.k = "Polyhedron" /\ Small(r.vs, 30)) => RLeq(Measures(r).vol, Measures(a).vol))
\* L2: the library's handlers for the body pairs, as written, give the exact intersection (checked on a shard: expensive)
L2Refines == (ph = 3 /\ InShard3(a, b, t, SEED + 5, NL2)) =>
               IF a.k = "Polyhedron" /\ b.k = "Polyhedron" THEN PolyhedronPolyhedronL2(a, B2) = Canon(r)
               ELSE SameSet(L2Body(a, B2), r)
Touch == IF r.k = "None" THEN "-" ELSE
         IF SameSet(r, B2) /\ \A P \in Vertices(B2) : PosClass(P, a) = "Interior" THEN "nested" ELSE
            IF \A P \in Vertices(r) : PosClass(P, a) # "Interior" /\ PosClass(P, B2) # "Interior" THEN "boundary" ELSE "overlap"
Emit == ph < 3 \/ PrintT(ToJson([a |-> a, b |-> B2, s |-> S, exp |-> r, doc |-> DocKinds(a.k, b.k), cls |-> <<a.k, b.k, r.k, Touch>>, m |-> Measures(r)]))
=============================================================================
