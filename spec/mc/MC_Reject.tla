----------------------------- MODULE MC_Reject -----------------------------
(***************************************************************************)
(* C15: invalid constructions and unsupported operands are rejected.       *)
(* An instance is a constructor / helper / operation call described by     *)
(* lattice points, vectors and integers.  ValidCall is the validity        *)
(* predicate of the abstract types; the generators produce members of      *)
(* every invalid-input class of the property (and valid controls), and TLC *)
(* checks that what a generator intends is what ValidCall says.  `tiny`    *)
(* marks a near-degenerate-by-tolerance instance: the replayer displaces   *)
(* the marked point by eps/100 (symbolic delta), which leaves it invalid.  *)
(***************************************************************************)
EXTENDS G3DCtor, G3DRel, TLC, Json
CONSTANTS B, SEED, NSHARD
VARIABLES inst
vars == <<inst>>
V3(a, b, c) == <<a, b, c>>
I(call, pts, vecs, n, tiny, intent) == [call |-> call, pts |-> pts, vecs |-> vecs, n |-> n, tiny |-> tiny, intent |-> intent]

Pts == Box(B)
Dirs == DirsOf(B)
SomeP == { V3(0, 0, 0), V3(1, -1, 1), V3(-1, 0, 1) }
SomeU == { V3(1, 0, 0), V3(1, 2, -1), V3(0, -1, 1), V3(-1, -1, -1) }
Ind(u) == Perp1(u)                                     \* a vector independent of u

Degenerate1D == UNION { ( { I(c \o ".PP", <<p, p>>, <<>>, 0, t, FALSE) : p \in Pts, t \in BOOLEAN }
   \cup { I(c \o ".PV", <<p>>, <<Zero3>>, 0, t, FALSE) : p \in SomeP, t \in BOOLEAN }
   \cup { I(c \o ".PP", <<p, Add(p, u)>>, <<>>, 0, FALSE, TRUE) : p \in SomeP, u \in SomeU }
   \cup { I(c \o ".PV", <<p>>, <<u>>, 0, FALSE, TRUE) : p \in SomeP, u \in SomeU } ) : c \in {"Line", "Segment", "HalfLine"} }
   \cup { I("Line.VV", <<p>>, <<Zero3>>, 0, FALSE, FALSE) : p \in SomeP }

BadPolygons ==
   { I("Polygon", <<p, Add(p, u)>>, <<>>, 0, FALSE, FALSE) : p \in SomeP, u \in SomeU }                                   \* two points
   \cup { I("Polygon", <<p, Add(p, u), p>>, <<>>, 0, t, FALSE) : p \in SomeP, u \in SomeU, t \in BOOLEAN }                 \* < 3 distinct
   \cup { I("Polygon", <<p, Add(p, u), Add(p, Scale(k, u))>>, <<>>, 0, FALSE, FALSE) : p \in SomeP, u \in SomeU, k \in {2, -1, 3} }   \* collinear
   \cup { I("Polygon", <<p, Add(p, u), Add(p, Scale(2, u)), Add(p, Scale(3, u))>>, <<>>, 0, FALSE, FALSE) : p \in SomeP, u \in SomeU }
   \cup { I("Polygon", <<p, Add(p, u), Add(p, Ind(u)), Add(p, Add(Add(u, Ind(u)), Cross(u, Ind(u))))>>, <<>>, 0, FALSE, FALSE) : p \in SomeP, u \in SomeU }  \* non-coplanar
   \cup { I("Polygon", <<p, Add(p, u), Add(p, Add(u, Ind(u))), Add(p, Ind(u))>>, <<>>, 0, FALSE, TRUE) : p \in SomeP, u \in SomeU }    \* control

BadPlanes ==
   { I("Plane.PN", <<p>>, <<Zero3>>, 0, FALSE, FALSE) : p \in SomeP }
   \cup { I("Plane.3P", <<p, Add(p, u), Add(p, Scale(k, u))>>, <<>>, 0, FALSE, FALSE) : p \in SomeP, u \in SomeU, k \in {2, -1} }
   \cup { I("Plane.3P", <<p, p, Add(p, u)>>, <<>>, 0, t, FALSE) : p \in SomeP, u \in SomeU, t \in BOOLEAN }
   \cup { I("Plane.PVV", <<p>>, <<u, Scale(k, u)>>, 0, FALSE, FALSE) : p \in SomeP, u \in SomeU, k \in {1, -2, 0} }
   \cup { I("Plane.GF", <<>>, <<Zero3>>, d, FALSE, FALSE) : d \in {0, 1, 3} }
   \cup { I("Plane.PN", <<p>>, <<u>>, 0, FALSE, TRUE) : p \in SomeP, u \in SomeU }
   \cup { I("Plane.3P", <<p, Add(p, u), Add(p, Ind(u))>>, <<>>, 0, FALSE, TRUE) : p \in SomeP, u \in SomeU }

BadBuilders ==
   { I("Parallelogram", <<p>>, <<u, Scale(k, u)>>, 0, FALSE, FALSE) : p \in SomeP, u \in SomeU, k \in {1, -2, 0} }
   \cup { I("Parallelogram", <<p>>, <<Zero3, u>>, 0, FALSE, FALSE) : p \in SomeP, u \in SomeU }
   \cup { I("Parallelogram", <<p>>, <<u, Ind(u)>>, 0, FALSE, TRUE) : p \in SomeP, u \in SomeU }
   \cup { I("Parallelepiped", <<p>>, <<u, Ind(u), Add(Scale(a, u), Scale(b, Ind(u)))>>, 0, FALSE, FALSE) : p \in SomeP, u \in SomeU, a \in {0, 1, 2}, b \in {0, 1, -1} }
   \cup { I("Parallelepiped", <<p>>, <<u, Scale(2, u), Ind(u)>>, 0, FALSE, FALSE) : p \in SomeP, u \in SomeU }
   \cup { I("Parallelepiped", <<p>>, <<u, Ind(u), Cross(u, Ind(u))>>, 0, FALSE, TRUE) : p \in SomeP, u \in SomeU }
   \cup { I("Circle", <<p>>, <<u>>, n, FALSE, n >= 3) : p \in SomeP, u \in SomeU, n \in {-1, 0, 1, 2, 3, 7} }
   \cup { I("Pyramid", <<p, Add(p, u), Add(p, Ind(u)), Add(p, Add(Scale(a, u), Scale(b, Ind(u))))>>, <<>>, 0, t, FALSE)
          : p \in SomeP, u \in SomeU, a \in {0, 1, 2}, b \in {0, -1}, t \in BOOLEAN }
   \cup { I("Pyramid", <<p, Add(p, u), Add(p, Ind(u)), Add(p, Cross(u, Ind(u)))>>, <<>>, 0, FALSE, TRUE) : p \in SomeP, u \in SomeU }

\* face sets that are not closed polyhedra: a catalogue body with some faces left out (n = bitmask-like index of the variant)
OpenBodies == { I("Polyhedron", <<>>, <<>>, n, FALSE, n = 0) : n \in 0..7 }

Helpers ==
   { I("SegFromList", <<>>, <<>>, 0, FALSE, FALSE) }
   \cup { I("SegFromList", <<p>>, <<>>, 0, FALSE, FALSE) : p \in SomeP }
   \cup { I("SegFromList", <<p, Add(p, u), Add(p, Add(u, Ind(u)))>>, <<>>, 0, FALSE, FALSE) : p \in SomeP, u \in SomeU }
   \cup { I("SegFromList", <<p, Add(p, u), Add(p, Scale(2, u)), Add(p, Ind(u))>>, <<>>, 0, FALSE, FALSE) : p \in SomeP, u \in SomeU }
   \cup { I("SegFromList", <<p, Add(p, u), Add(p, Scale(-2, u))>>, <<>>, 0, FALSE, TRUE) : p \in SomeP, u \in SomeU }

Instances == Degenerate1D \cup BadPolygons \cup BadPlanes \cup BadBuilders \cup OpenBodies \cup Helpers

\* ---- validity of a call, from the invariants of the abstract types
LPs(ps) == { LP(ps[i]) : i \in DOMAIN ps }
ValidCall(c) ==
  CASE c.call \in {"Line.PP", "Segment.PP", "HalfLine.PP"} -> c.pts[1] # c.pts[2]
    [] c.call \in {"Line.PV", "Segment.PV", "HalfLine.PV", "Line.VV", "Plane.PN"} -> c.vecs[1] # Zero3
    [] c.call = "Polygon" -> LET S == LPs(c.pts) IN Cardinality(S) >= 3 /\ ~CollinearSet(S) /\ CoplanarSet(S)
    [] c.call = "Plane.3P" -> ~CollinearSet(LPs(c.pts))
    [] c.call = "Plane.PVV" -> ~ParallelV(c.vecs[1], c.vecs[2])
    [] c.call = "Plane.GF" -> c.vecs[1] # Zero3
    [] c.call = "Parallelogram" -> ~ParallelV(c.vecs[1], c.vecs[2])
    [] c.call = "Parallelepiped" -> Det3(c.vecs[1], c.vecs[2], c.vecs[3]) # 0
    [] c.call = "Circle" -> c.n >= 3 /\ c.vecs[1] # Zero3
    [] c.call = "Pyramid" -> LET S == LPs(c.pts) IN ~CoplanarSet(S)           \* base = first three points, apex = the fourth
    [] c.call = "Polyhedron" -> c.n = 0
    [] c.call = "SegFromList" -> Len(c.pts) >= 2 /\ CollinearSet(LPs(c.pts)) /\ c.pts[1] # c.pts[2]

\* ---- operand support tables (L2: the fall-through branches of the dispatchers)
OpKinds == {"Point", "Line", "Plane", "Segment", "HalfLine", "Polygon", "Polyhedron", "Vector", "Pyramid", "Int", "Str"}
Geo7    == {"Point", "Line", "Plane", "Segment", "HalfLine", "Polygon", "Polyhedron"}
Supported(op, ka, kb) ==
  CASE op = "intersection" -> ka \in Geo7 /\ kb \in Geo7
    [] op = "distance" -> {ka, kb} \in {{"Point"}, {"Point", "Line"}, {"Line"}, {"Point", "Plane"}, {"Line", "Plane"}}
    [] op \in {"angle", "parallel", "orthogonal"} -> {ka, kb} \in {{"Line"}, {"Line", "Plane"}, {"Plane"}, {"Vector"}}
    [] op = "volume" -> ka \in {"Polyhedron", "Pyramid"}
    [] op = "move" -> ka \in Geo7 /\ kb = "Vector"
OpCalls == { [call |-> "op", op |-> op, ka |-> ka, kb |-> kb] : op \in {"intersection", "distance", "angle", "parallel", "orthogonal"}, ka \in OpKinds, kb \in OpKinds }
           \cup { [call |-> "op", op |-> "volume", ka |-> ka, kb |-> "-"] : ka \in OpKinds }
           \cup { [call |-> "op", op |-> "move", ka |-> ka, kb |-> kb] : ka \in Geo7, kb \in {"Vector", "Int", "Str", "NoneType", "Point", "Tuple"} }

Init == inst \in { c \in Instances : NSHARD = 1 \/ (Mix(Mix(MixV(Len(c.pts) + Len(c.vecs) * 7 + c.n * 31, IF c.pts = <<>> THEN Zero3 ELSE c.pts[1]), Len(c.call)), SEED) % NSHARD) = 0 }
                \cup OpCalls
Next == UNCHANGED inst
Spec == Init /\ [][Next]_vars

IntentMatches == inst.call # "op" => (inst.intent <=> ValidCall(inst))
Emit == PrintT(ToJson(IF inst.call = "op" THEN inst @@ [valid |-> Supported(inst.op, inst.ka, inst.kb)] ELSE inst @@ [valid |-> ValidCall(inst)]))
=============================================================================
