------------------------------- MODULE MC_Equi -------------------------------
(***************************************************************************)
(* C13: every query commutes with the 48 signed axis permutations,         *)
(* integer translations and integer scalings (k = 1/2 enters through the   *)
(* case scale in the harness).  Checked on the specification for every     *)
(* enumerated (case, T), and each (case, T) is replayed in the library     *)
(* on both sides.                                                          *)
(***************************************************************************)
EXTENDS G3DTransform, G3DMeasure, TLC, Json
CONSTANTS KA, KB, BODIES, SEED, NSHARD, NSHARDT, NBORING
VARIABLES ph, a, b, T
vars == <<ph, a, b, T>>
IdT == MkT(<<1, 2, 3>>, <<1, 1, 1>>, 1, Zero3)
UA == UNION { FlatObjs(k, {Zero3}, 1) : k \in KA \cap FlatKinds } \cup { Body(nm, 1) : nm \in BODIES } \cup { MkVector(v) : v \in IF "Vector" \in KA THEN {<<1, 2, -1>>, <<0, 1, 0>>, <<2, 2, 0>>} ELSE {} }
UB == UNION { FlatObjs(k, Box(1), 1) : k \in KB \cap FlatKinds } \cup { Translate(Body(nm, 1), t) : nm \in BODIES, t \in {<<0, 0, 0>>, <<1, 0, 1>>} }
      \cup { MkVector(v) : v \in IF "Vector" \in KB THEN {<<1, 2, -1>>, <<0, -2, 0>>, <<1, -1, 0>>, <<-2, -4, 2>>} ELSE {} }
Ts == { MkT(p, s, k, t) : p \in Perms3, s \in Signs3, k \in {1, 2, 3}, t \in {Zero3, <<1, -2, 3>>} }
Compatible(x, y) == (x.k = "Vector") = (y.k = "Vector")
Init == ph = 1 /\ a \in UA /\ b = NoneObj /\ T = IdT
Next == \/ ph = 1 /\ ph' = 2 /\ a' = a /\ T' = T /\ b' \in { y \in UB : Compatible(a, y) /\ InShard(IF a.k = "Vector" THEN MkPoint(LP(a.v)) ELSE a, IF y.k = "Vector" THEN MkPoint(LP(y.v)) ELSE y, SEED,
                                                       \* base cases whose operands do not meet are thinned out more
                                                       IF a.k # "Vector" /\ a.k \in FlatKinds /\ y.k \in FlatKinds /\ InterAnalytic(a, y).k = "None" THEN NBORING ELSE NSHARD) }
        \/ ph = 2 /\ ph' = 3 /\ a' = a /\ b' = b /\ T' \in { t \in Ts : (Mix(MixV(MixV(t.k, t.perm), t.sg), SEED + Code(IF b.k = "Vector" THEN MkPoint(LP(b.v)) ELSE b)) % NSHARDT) = 0 }
Spec == Init /\ [][Next]_vars

Ta == Transform(T, a)
Tb == Transform(T, b)
Geo == a.k # "Vector"
MemOK(x, y) == x.k = "Point" \/ (x.k = "Segment" /\ y.k # "Point") \/ (x.k = "HalfLine" /\ y.k \in {"Line", "HalfLine", "Plane"})
               \/ (x.k = "Line" /\ y.k = "Plane") \/ (x.k = "Polygon" /\ y.k \in {"Plane", "Polyhedron"})
\* ---- equivariance of the specification
EqInter == (ph = 3 /\ Geo) => SameSet(Inter(Ta, Tb), Transform(T, Inter(a, b)))
EqMem   == (ph = 3 /\ Geo) => (Subset(Ta, Tb) <=> Subset(a, b)) /\ SameSet(Ta, Tb) = SameSet(a, b)
EqDist  == (ph = 3 /\ Geo /\ DistSupported(a, b)) => Dist2(Ta, Tb) = RMul(<<T.k * T.k, 1>>, Dist2(a, b))
EqRel   == (ph = 3 /\ RelSupported(a, b)) => AngleSpec(Ta, Tb) = AngleSpec(a, b) /\ ParallelRel(Ta, Tb) = ParallelRel(a, b) /\ OrthRel(Ta, Tb) = OrthRel(a, b)
EqMeas  == (ph = 3 /\ Geo /\ a.k = "Polyhedron") => Measures(Ta).vol = RMul(<<T.k * T.k * T.k, 1>>, Measures(a).vol)
Emit == ph < 3 \/ PrintT(ToJson([a |-> a, b |-> b, T |-> T, ta |-> Ta, tb |-> Tb,
          inter |-> IF Geo THEN Inter(a, b) ELSE NoneObj, tinter |-> IF Geo THEN Inter(Ta, Tb) ELSE NoneObj,
          mem |-> IF Geo /\ MemOK(a, b) THEN <<TRUE, Subset(a, b)>> ELSE <<FALSE, FALSE>>, same |-> IF Geo THEN SameSet(a, b) ELSE FALSE,
          dist |-> IF Geo /\ DistSupported(a, b) THEN <<TRUE, Dist2(a, b)>> ELSE <<FALSE, <<0, 1>>>>,
          rel |-> IF RelSupported(a, b) THEN [ok |-> TRUE, ang |-> AngleSpec(a, b), par |-> ParallelRel(a, b), orth |-> OrthRel(a, b)]
                  ELSE [ok |-> FALSE, ang |-> [fn |-> "-", q |-> <<0, 1>>], par |-> FALSE, orth |-> FALSE],
          m |-> IF Geo THEN Measures(a) ELSE [none |-> TRUE], tm |-> IF Geo THEN Measures(Ta) ELSE [none |-> TRUE]]))
=============================================================================
