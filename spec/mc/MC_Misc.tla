------------------------------- MODULE MC_Misc -------------------------------
(***************************************************************************)
(* Library behaviour outside the twenty listed properties (the spec keeps  *)
(* growing): projection helpers, points_in_a_line, orientation-sensitive   *)
(* polygon equality (eq_with_normal / hash_with_normal), the half-line     *)
(* point-hit helper and the in_ methods.  Run with  ./check X01 .          *)
(***************************************************************************)
EXTENDS G3DBodies, G3DAlg, G3DCtor, TLC, Json
CONSTANTS SEED, NSHARD
VARIABLES c
vars == <<c>>
V3(x, y, z) == <<x, y, z>>
Vs == { v \in Box(2) : v # Zero3 }
\* projection of v1 on v2: relative length (v1.v2)/(v2.v2); the length itself is sign * sqrt((v1.v2)^2 / (v2.v2))
ProjCases == { [op |-> "proj", v1 |-> a, v2 |-> b, rel |-> R(Dot(a, b), Norm2(b)), sgn |-> Sign(Dot(a, b)), len2 |-> R(Dot(a, b) * Dot(a, b), Norm2(b))]
               : a \in { v \in Vs : (v[1] * 7 + v[2] * 3 + v[3] + SEED) % 5 = 0 }, b \in { v \in Vs : (v[1] + v[2] * 5 + v[3] * 11 + SEED) % 7 = 0 } }
Pts == { LP(p) : p \in Box(1) }
LineCases == { x \in { [op |-> "collinear", pts |-> <<p, q, r>>, exp |-> CollinearSet({p, q, r})] : p \in Pts, q \in Pts, r \in { y \in Pts : (y[1] + 2 * y[2] + 3 * y[3] + SEED) % 3 = 0 } }
                 : x.pts[1] # x.pts[2] }
Rot(cyc, k) == [i \in 1..Len(cyc) |-> cyc[((i - 1 + k) % Len(cyc)) + 1]]
Rev(cyc)    == [i \in 1..Len(cyc) |-> cyc[Len(cyc) + 1 - i]]
PolyCases == UNION { { [op |-> "eq_with_normal", a |-> Polygon(nm, 2).cyc, b |-> Rot(Polygon(nm, 2).cyc, k), exp |-> TRUE] : k \in 0..2 }
                     \cup { [op |-> "eq_with_normal", a |-> Polygon(nm, 2).cyc, b |-> Rot(Rev(Polygon(nm, 2).cyc), k), exp |-> FALSE] : k \in 0..2 }
                     : nm \in {"tri", "par", "pentObl", "hexObl"} }
\* half-line point hits on a polyhedron, and the in_ methods (containment of a composite in a Line / Plane)
Bodies == { Polyhedron("cube", 2), Polyhedron("tet2", 2), Polyhedron("octa", 1) }
HLs(K) == { MkHalfLine(LP(p), u) : p \in { q \in BBoxPts(K.vs, 1) : (q[1] + 3 * q[2] + 5 * q[3] + SEED) % NSHARD = 0 }, u \in DirsOf(1) }
HitCases == UNION { { [op |-> "halfline_hits", h |-> h, body |-> K,
                       pts |-> { r.p : r \in { r \in { OneDPolygonL2(h, g) : g \in FacesOf(K) } \cup { WithSeg(e, h) : e \in EdgesOf(K) } : r.k = "Point" } }]
                       : h \in HLs(K) } : K \in Bodies }
Init == c \in ProjCases \cup LineCases \cup PolyCases \cup HitCases
Next == UNCHANGED c
Spec == Init /\ [][Next]_vars
\* the relative projection of v on itself is 1, projections are homogeneous of degree 0 in v2
ProjSane == c.op = "proj" => (c.v1 = c.v2 => c.rel = <<1, 1>>) /\ c.rel = R(Dot(c.v1, Scale(3, c.v2)) * 3, Norm2(Scale(3, c.v2)))
HitsSane == c.op = "halfline_hits" => \A P \in c.pts : Mem(P, c.h) /\ Mem(P, c.body)
Emit == PrintT(ToJson(c))
=============================================================================
