------------------------------- MODULE MC_Alg -------------------------------
(***************************************************************************)
(* C12: the algebra of intersection on triples of objects of all seven     *)
(* kinds placed in and around the cube [0,2]^3 (generic and degenerate     *)
(* mutual positions).  The expected value of both nestings is the triple   *)
(* intersection computed on the union of the three constraint systems.     *)
(***************************************************************************)
EXTENDS G3DBodies, G3DMeasure, TLC, Json
CONSTANTS SEED, NSHARD
VARIABLES ph, a, b, c
vars == <<ph, a, b, c>>
P3(x, y, z) == LP(<<x, y, z>>)
V3(x, y, z) == <<x, y, z>>
Univ == { MkPoint(P3(1, 1, 1)), MkPoint(P3(2, 2, 2)), MkPoint(P3(0, 1, 1)), MkPoint(P3(3, 1, 1)), MkPoint(P3(1, 1, 0)),
       MkLine(P3(1, 1, 1), V3(1, 0, 0)), MkLine(P3(1, 1, 1), V3(1, 1, 1)), MkLine(P3(0, 0, 0), V3(1, 0, 0)), MkLine(P3(0, 0, 3), V3(1, 0, 0)), MkLine(P3(0, 1, 0), V3(1, 1, 0)),
       MkHalfLine(P3(1, 1, 1), V3(0, 0, 1)), MkHalfLine(P3(1, 1, 1), V3(0, 0, -1)), MkHalfLine(P3(1, 1, 3), V3(0, 0, -1)), MkHalfLine(P3(2, 2, 2), V3(1, 1, 1)), MkHalfLine(P3(-1, 1, 1), V3(1, 0, 0)), MkHalfLine(P3(1, 1, 1), V3(-1, -1, 0)),
       MkSegment(P3(0, 0, 0), P3(2, 2, 2)), MkSegment(P3(1, 1, 1), P3(2, 2, 2)), MkSegment(P3(1, 1, 1), P3(1, 1, 3)), MkSegment(P3(1, 1, -1), P3(1, 1, 3)), MkSegment(P3(0, 0, 0), P3(2, 0, 0)), MkSegment(P3(-1, 1, 1), P3(1, 1, 1)), MkSegment(P3(1, 0, 1), P3(1, 2, 1)),
       \* in the plane of the square / of the cube's bottom face: its carrier line grazes the corner (2, 0, 0) only, and the segment stops short of it
       MkSegment(P3(3, 1, 0), P3(4, 2, 0)),
       MkPlane(P3(0, 0, 1), V3(0, 0, 1)), MkPlane(P3(1, 1, 1), V3(1, 1, 1)), MkPlane(P3(0, 0, 0), V3(0, 0, 1)), MkPlane(P3(0, 0, 0), V3(1, -1, 0)), MkPlane(P3(0, 0, 2), V3(0, 0, 1)),
       Polygon("sq", 2), HullPolygon({P3(2, 0, 0), P3(0, 2, 0), P3(0, 0, 2)}), HullPolygon({P3(0, 0, 1), P3(2, 0, 1), P3(2, 2, 1), P3(0, 2, 1)}), Polygon("hexObl", 1), Translate(Polygon("stripH", 1), V3(0, 0, 1)), Translate(Polygon("stripV", 1), V3(0, 0, 1)),
       Polyhedron("cube", 2), Polyhedron("tet2", 2), Polyhedron("octa", 1), Translate(Polyhedron("cube", 2), V3(1, 1, 1)) }
Init == ph = 1 /\ a \in Univ /\ b = NoneObj /\ c = NoneObj
Next == \/ ph = 1 /\ ph' = 2 /\ a' = a /\ b' \in Univ /\ c' = c
        \/ ph = 2 /\ ph' = 3 /\ a' = a /\ b' = b /\ c' \in { x \in Univ : NSHARD = 1 \/ Mix(Mix(Mix(Code(a), Code(b)), Code(x)), SEED) % NSHARD = 0 }
Spec == Init /\ [][Next]_vars

LP2(o) == o.k \in {"Line", "Plane"}
E3(x, y, z) == IF LP2(x) /\ LP2(y) /\ LP2(z) THEN InterAnalytic(InterAnalytic(x, y), z)
               ELSE IF LP2(x) /\ LP2(y) /\ InterAnalytic(x, y).k = "None" THEN NoneObj
               ELSE Inter3Generic(x, y, z)
\* Inter3Generic needs a pointed common set: if two operands are Line/Plane and the third is not, the third makes it pointed unless empty
\* ---- the laws on the specification (nested evaluation on flat triples, where the rational operands fit in 32 bits)
FlatTriple == a.k \in FlatKinds /\ b.k \in FlatKinds /\ c.k \in FlatKinds
Assoc == (ph = 3 /\ FlatTriple) => LET e == E3(a, b, c)
                                   IN SameSet(Inter(Inter(a, b), c), e) /\ SameSet(Inter(a, Inter(b, c)), e)
Idem  == ph = 1 => SameSet(Inter(a, a), a)
Absorb == ph = 2 => (Subset(a, b) => SameSet(Inter(a, b), a))
Commut3 == ph = 3 => SameSet(E3(a, b, c), E3(c, a, b))
Emit == ph < 3 \/ PrintT(ToJson([a |-> a, b |-> b, c |-> c, s |-> 1, e3 |-> E3(a, b, c), ab |-> Inter(a, b), sub |-> Subset(a, b)]))
=============================================================================
