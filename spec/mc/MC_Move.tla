------------------------------ MODULE MC_Move ------------------------------
(***************************************************************************)
(* C07: sessions of one object under test that is moved, deep-copied and   *)
(* observed.  Two configurations:                                          *)
(*   MC  (VIEW hides hist): the invariants of the Session machine          *)
(*   GEN (hist in the state): every history up to MaxDepth once, printed   *)
(*       with the exact current value and the exact answers of the query   *)
(*       battery, to be replayed into the library on every representative  *)
(***************************************************************************)
EXTENDS G3DSession, Json
CONSTANTS S, KINDS, SEED, NSHARD

V3(x, y, z) == <<x, y, z>>
PObjs ==
  [Point      |-> { MkPoint(LP(V3(S, -S, 2 * S))), MkPoint(LP(V3(1, 0, 3))) },
   Line       |-> { MkLine(LP(V3(S, 0, S)), V3(1, 2, -1)), MkLine(LP(V3(0, S, 0)), V3(1, 0, 0)) },
   HalfLine   |-> { MkHalfLine(LP(V3(0, S, S)), V3(-1, 1, 2)), MkHalfLine(LP(V3(S, S, 0)), V3(0, 0, 1)) },
   Segment    |-> { MkSegment(LP(V3(0, 0, 0)), LP(V3(2 * S, S, -S))), MkSegment(LP(V3(S, 0, 0)), LP(V3(S, 2 * S, 0))) },
   Plane      |-> { MkPlane(LP(V3(S, S, 0)), V3(1, -2, 2)), MkPlane(LP(V3(0, 0, S)), V3(0, 0, 1)) },
   Polygon    |-> { Polygon("par", S), Polygon("pentObl", S), Polygon("hexObl", S), Polygon("sq", S) },
   Polyhedron |-> { Polyhedron("tet2", S), Polyhedron("obl", S), Polyhedron("ppyr", S), Polyhedron("cube", S) }]
MCObjChoices == UNION { { <<o>> : o \in PObjs[k] } : k \in KINDS }
MCMoveVecs   == { Zero3, V3(S, 0, 0), V3(-S, 0, 0), V3(1, 2, -1), V3(-3, 0, 2), V3(0, 0, 1) }
MCProbes     == << MkPlane(LP(V3(0, 0, S)), V3(0, 0, 1)), MkPlane(LP(V3(S, 0, 0)), V3(1, 1, 1)),
                   MkLine(LP(Zero3), V3(1, 1, 0)), MkSegment(LP(V3(-S, -S, 0)), LP(V3(2 * S, 2 * S, S))),
                   MkPoint(LP(V3(S, S, 0))), Polyhedron("cube", S) >>
MCNoArgs     == <<>>

InMyShard == NSHARD = 1 \/ (Mix(SumSeq([n \in 1..Len(hist) |-> IF hist[n].act = "Move" THEN MixV(n, hist[n].v) ELSE n * 7]), SEED) % NSHARD) = 0
Emit == (hist = <<>> \/ ~InMyShard)
        \/ PrintT(ToJson([hist |-> hist, orig |-> orig[1], cur |-> heap[1], disp |-> disp[1], s |-> S, probes |-> Probes,
                          bat |-> Battery(heap[1], orig[1])]))
=============================================================================
