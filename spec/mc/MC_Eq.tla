------------------------------- MODULE MC_Eq -------------------------------
(***************************************************************************)
(* C08: equality and hashing.  For an object x the specification builds a  *)
(* family Reps(x) of alternative exact representations of the same point   *)
(* set and a family NearMiss(x) of different sets (one defining point      *)
(* displaced by one lattice step of 1/S, a tilted direction, a changed     *)
(* vertex).  TLC checks Canon constant on Reps and different on NearMiss;  *)
(* the replayer compares ==, !=, hash and set membership of the built      *)
(* objects with SameSet.                                                   *)
(***************************************************************************)
EXTENDS G3DCtor, G3DRel, TLC, Json
CONSTANTS S, KINDS, SEED, NSHARD
VARIABLES ph, x, ra, rb
vars == <<ph, x, ra, rb>>
V3(a, b, c) == <<a, b, c>>
NoRep == [o |-> NoneObj, form |-> "-", tag |-> "-"]
Rep(o, form, tag) == [o |-> o, form |-> form, tag |-> tag]

Objects ==
  [Point      |-> { MkPoint(LP(V3(S, -S, 2 * S))), MkPoint(LP(V3(0, 0, 0))) },
   Vector     |-> { MkVector(V3(S, -2 * S, 2 * S)), MkVector(V3(0, S, 0)) },
   Line       |-> { MkLine(LP(V3(S, 0, S)), V3(1, 2, -1)), MkLine(LP(V3(0, S, 0)), V3(0, 0, 1)), MkLine(LP(V3(-S, S, S)), V3(-2, 1, 0)) },
   HalfLine   |-> { MkHalfLine(LP(V3(0, S, S)), V3(-1, 1, 2)), MkHalfLine(LP(V3(S, S, 0)), V3(0, -1, 0)) },
   Segment    |-> { MkSegment(LP(V3(0, 0, 0)), LP(V3(2 * S, S, -S))), MkSegment(LP(V3(S, 0, 0)), LP(V3(S, 2 * S, 0))) },
   Plane      |-> { MkPlane(LP(V3(S, S, 0)), V3(1, -2, 2)), MkPlane(LP(V3(0, 0, S)), V3(0, 0, 1)), MkPlane(LP(V3(S, 0, 0)), V3(0, -1, 1)) },
   Polygon    |-> { Polygon("par", S), Polygon("pentObl", S), Polygon("hexObl", S), Polygon("tri", S),
                    \* unit square in the plane x = -1 (real units): its translate to x = -2 hashes alike in CPython (hash(-1) = hash(-2))
                    HullPolygon({LP(V3(-S, 0, 0)), LP(V3(-S, S, 0)), LP(V3(-S, S, S)), LP(V3(-S, 0, S))}) },
   Polyhedron |-> { Polyhedron("tet2", S), Polyhedron("obl", S), Polyhedron("ppyr", S), Polyhedron("cube", S),
                    Translate(Polyhedron("cube", S), V3(-2 * S, 0, 0)) },
   \* Points, Segments, Planes at -1 (their translates to -2 are hash twins)
   HashTwin   |-> { MkPoint(LP(V3(-S, 0, S))), MkSegment(LP(V3(-S, 0, 0)), LP(V3(-S, S, 0))), MkPlane(LP(V3(-S, 0, 0)), V3(1, 0, 0)),
                    MkHalfLine(LP(V3(-S, 0, 0)), V3(0, 1, 0)), MkLine(LP(V3(0, -S, 0)), V3(1, 0, 0)) }]

Ks == {1, -1, 2, -3}
Rot(cyc, r) == [i \in 1..Len(cyc) |-> cyc[((i - 1 + r) % Len(cyc)) + 1]]
Rev(cyc)    == [i \in 1..Len(cyc) |-> cyc[Len(cyc) + 1 - i]]
Reps(o) ==
  CASE o.k = "Point"  -> { Rep(o, f, "same") : f \in {"int", "float", "frac"} }
    [] o.k = "Vector" -> { Rep(o, f, "same") : f \in {"int", "float", "frac"} }
    [] o.k = "Line"   -> { Rep(MkLine(HTrans(o.p, Scale(t, o.u)), Scale(k, o.u)), f, "same") : t \in {0, 1, -2}, k \in Ks, f \in {"PV", "PP", "VV"} }
    [] o.k = "HalfLine" -> { Rep(MkHalfLine(o.p, Scale(k, o.u)), f, "same") : k \in {1, 2, 3}, f \in {"PV", "PP"} }
    [] o.k = "Segment"  -> { Rep(o, "PP", "same"), Rep(MkSegment(o.b, o.a), "PP", "same"), Rep(o, "PV", "same"), Rep(MkSegment(o.b, o.a), "PV", "same") }
    [] o.k = "Plane"  -> { Rep([MkPlane(HTrans(o.p, Add(Scale(a, Perp1(o.n)), Scale(b, Perp2(o.n)))), Scale(k, o.n)) EXCEPT !.n = Scale(k, o.n)] @@ [v |-> Perp1(o.n), w |-> Scale(k, Perp2(o.n))], f, "same")
                           : a \in {0, 1}, b \in {0, -1}, k \in {1, -1, 2}, f \in {"PN", "3P", "PVV", "GF"} }
    [] o.k = "Polygon" -> { Rep(MkPolygon(Rot(o.cyc, r), o.n), "verts", "same") : r \in 0..(Len(o.cyc) - 1) }
                          \cup { Rep(MkPolygon(Rot(Rev(o.cyc), r), Neg(o.n)), "verts", "same") : r \in 0..(Len(o.cyc) - 1) }
    [] o.k = "Polyhedron" -> { Rep(o, "faces", "same") }      \* face order / rotation / orientation are chosen by the replayer's seed
NearMiss(o) ==
  CASE o.k = "Point"  -> { Rep(MkPoint(HTrans(o.p, e)), "float", "moved") : e \in {V3(1, 0, 0), V3(0, -1, 0), V3(0, 0, 1)} }
    [] o.k = "Vector" -> { Rep(MkVector(Add(o.v, e)), "float", "moved") : e \in {V3(1, 0, 0), V3(0, -1, 0), V3(0, 0, 1)} }
                         \cup { Rep(MkVector(Scale(2, o.v)), "float", "scaled"), Rep(MkVector(Neg(o.v)), "float", "negated") }
    [] o.k = "Line"   -> { Rep(MkLine(HTrans(o.p, e), o.u), "PV", "displaced") : e \in { e \in {V3(1, 0, 0), V3(0, 1, 0), V3(0, 0, 1)} : ~ParallelV(e, o.u) } }
                         \cup { Rep(MkLine(o.p, Add(Scale(8, o.u), e)), "PV", "tilted") : e \in { e \in {V3(1, 0, 0), V3(0, 1, 0)} : ~ParallelV(e, o.u) } }
    [] o.k = "HalfLine" -> { Rep(MkHalfLine(HTrans(o.p, o.u), o.u), "PV", "shifted"), Rep(MkHalfLine(o.p, Neg(o.u)), "PV", "reversed") }
                           \cup { Rep(MkHalfLine(o.p, Add(Scale(8, o.u), e)), "PV", "tilted") : e \in { e \in {V3(1, 0, 0), V3(0, 1, 0)} : ~ParallelV(e, o.u) } }
    [] o.k = "Segment"  -> { Rep(MkSegment(o.a, HTrans(o.b, e)), "PP", "endpoint") : e \in {V3(1, 0, 0), V3(0, 0, -1)} }
                           \cup { Rep(Translate(o, V3(-S, 0, 0)), "PP", "hashtwin") }
                           \cup { Rep(MkSegment(o.a, HMid(o.a, o.b)), "PP", "shortened") }
    [] o.k = "Plane"  -> { Rep(MkPlane(HTrans(o.p, o.n), o.n), "PN", "displaced"), Rep(MkPlane(HTrans(o.p, Scale(-S, SignNorm(o.n))), o.n), "PN", "hashtwin") }
                         \cup { Rep(MkPlane(o.p, Add(Scale(8, o.n), e)), "PN", "tilted") : e \in { e \in {V3(1, 0, 0), V3(0, 1, 0)} : ~ParallelV(e, o.n) } }
    [] o.k = "Polygon" -> { Rep(Translate(o, Perp1(o.n)), "verts", "slid"), Rep(Translate(o, o.n), "verts", "lifted"),
                            Rep(Translate(o, V3(-S, 0, 0)), "verts", "hashtwin"),
                            Rep(HullPolygon({o.cyc[1], o.cyc[2], o.cyc[3]}), "verts", "subset") } \ { Rep(o, "verts", "subset") }
    [] o.k = "Polyhedron" -> { Rep(Translate(o, e), "faces", "moved") : e \in {V3(1, 0, 0), V3(0, 0, -1), V3(-S, 0, 0)} }

Init == ph = 1 /\ x \in UNION { Objects[k] : k \in KINDS } \cup Objects.HashTwin /\ ra = NoRep /\ rb = NoRep
Next == ph = 1 /\ ph' = 2 /\ x' = x /\ ra' \in Reps(x)
        /\ rb' \in { r \in Reps(x) \cup NearMiss(x) : NSHARD = 1 \/ (Mix(Mix(Code(IF ra'.o.k = "Vector" THEN MkPoint(LP(ra'.o.v)) ELSE ra'.o),
                                                                          Code(IF r.o.k = "Vector" THEN MkPoint(LP(r.o.v)) ELSE r.o)), SEED) % NSHARD) = 0 }
Spec == Init /\ [][Next]_vars

CanonV(o) == IF o.k = "Vector" THEN o ELSE Canon(o)
Same(a, b) == a.k = b.k /\ CanonV(a) = CanonV(b)
RepsSame     == ph = 1 => \A r \in Reps(x) : Same(r.o, x)
NearDifferent == ph = 1 => \A r \in NearMiss(x) : ~Same(r.o, x)
\* equality of sets agrees with mutual containment (cross-check of Canon with the L0/L1 semantics)
SameIffMutual == ph = 2 => (x.k # "Vector" => (Same(ra.o, rb.o) <=> (Subset(ra.o, rb.o) /\ Subset(rb.o, ra.o))))
Emit == ph = 1 \/ PrintT(ToJson([a |-> ra, b |-> rb, s |-> S, same |-> Same(ra.o, rb.o)]))
=============================================================================
