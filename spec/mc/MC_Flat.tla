------------------------------ MODULE MC_Flat ------------------------------
(***************************************************************************)
(* Flat x flat intersection cases (C01, flat cells of C04/C05/C10/C12).    *)
(* Two-level enumeration: Init chooses the first operand (base point at    *)
(* the origin: cases are taken modulo translation, the harness transports  *)
(* them), Next the second.  Every case is one phase-2 state.               *)
(***************************************************************************)
EXTENDS G3DUniv, G3DAlg, TLC, Json

CONSTANTS B,        \* lattice half-width
          KA, KB,   \* kinds of the first / second operand
          SEED, NSHARD, NBORING
VARIABLES ph, a, b, r         \* r: the exact intersection, computed once per case
vars == <<ph, a, b, r>>

UA == UNION { FlatObjs(k, {Zero3}, B) : k \in KA }
UB == UNION { FlatObjs(k, Box(B), B) : k \in KB }

Init == ph = 1 /\ a \in UA /\ b = NoneObj /\ r = NoneObj
Next == ph = 1 /\ ph' = 2 /\ a' = a /\ b' \in { x \in UB : InShard(a, x, SEED, NSHARD) \/ (a.k = "Point" /\ x.k = "Point") } /\ r' = Inter(a, b')
Spec == Init /\ [][Next]_vars


\* ---- properties of the specification itself (the oracle is checked before it is used)
AnalyticEqGeneric == ph = 2 => (Pointed(a, b) => SameSet(InterAnalytic(a, b), InterGeneric(a, b)))
SaneGeneric       == ph = 2 => (Pointed(a, b) => GenericSane(a, b))
Symmetric         == ph = 2 => SameSet(Inter(a, b), Inter(b, a))
Typed             == ph = 2 => r.k \in DocKinds(a.k, b.k)
ResultInBoth      == ph = 2 => (r.k # "None" => Subset(r, a) /\ Subset(r, b))
Probes == { HP(p[1], p[2], p[3], 2) : p \in Box(2 * B) }
ProbesAgree       == ph = 2 => \A P \in Probes : Mem(P, r) <=> (Mem(P, a) /\ Mem(P, b))
Idempotent        == ph = 1 => SameSet(Inter(a, a), a)

\* ---- L2 (the library's handlers as they are written) refines L1, never reaches the "Bug detected" branch, dispatch is total
L2Refines == ph = 2 => (HasL2(a, b) => SameSet(L2(a, b), r))
DispatchOK == DispatchTotal /\ DispatchSymmetric
\* ---- case emission for the replayer
Emit == ph = 1 \/ LET f == RelFlags(a, b, r)
                  IN (r.k = "None" /\ ~f[4] /\ ~InShard(b, a, SEED, NBORING))
                     \/ PrintT(ToJson([a |-> a, b |-> b, exp |-> r, doc |-> DocKinds(a.k, b.k), cls |-> f]))
=============================================================================
