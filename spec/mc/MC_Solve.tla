------------------------------ MODULE MC_Solve ------------------------------
(***************************************************************************)
(* C16: all augmented matrices with ROWS equations and COLS-1 unknowns and *)
(* entries in -E..E (rows are chosen level by level so that all workers    *)
(* share the enumeration).  L2 (the library's loop) must refine L1.        *)
(***************************************************************************)
EXTENDS G3DSolve, TLC, Json
CONSTANTS ROWS, COLS, E, SEED, NSHARD, COUPLED
VARIABLES m
vars == <<m>>
RowSet == [1..COLS -> (-E)..E]
Init == m \in { mm \in { <<r>> : r \in RowSet } : ROWS > 1 \/ NSHARD = 1 \/ TRUE }
Code(mm) == LET RECURSIVE H(_, _) H(i, acc) == IF i > Len(mm) THEN acc ELSE H(i + 1, (acc * 131 + SumSeq([c \in 1..COLS |-> (mm[i][c] + 3) * (7 * c + i)])) % 1000003) IN H(1, 7)
InShardM(mm) == NSHARD = 1 \/ Len(mm) < ROWS \/ (Code(mm) + SEED) % NSHARD = 0
Next == Len(m) < ROWS /\ m' \in { mm \in { Append(m, r) : r \in RowSet } : InShardM(mm) }
Spec == Init /\ [][Next]_vars
Done == Len(m) = ROWS
Params == << <<3, 1>>, <<-2, 1>>, <<1, 2>> >>

L2Solvable == Done => (SolvableL2(Echelon(m, COUPLED)) <=> Consistent(m))
L2VarArgs  == Done => (Consistent(m) => VarArgsL2(Echelon(m, COUPLED)) = FreeCount(m))
L2Echelon  == Done => IsEchelon(Echelon(m, COUPLED))
L2Solution == Done => (Consistent(m) => LET ref == Echelon(m, COUPLED) IN
                         IsEchelon(ref) => IsSolution(m, CallL2(ref, [k \in 1..FreeCount(m) |-> Params[k]])))
Emit == ~Done \/ PrintT(ToJson([m |-> m, consistent |-> Consistent(m), free |-> FreeCount(m), rank |-> Rank(Coef(m))]))
=============================================================================
