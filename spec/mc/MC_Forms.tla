------------------------------ MODULE MC_Forms ------------------------------
(* C17: general-form quadruples and lattice planes / lines with probe points on and off them *)
EXTENDS G3DForms, TLC, Json
CONSTANTS E, B, SEED, NSHARD
VARIABLES c
vars == <<c>>
Quads == { q \in ((-E)..E) \X ((-E)..E) \X ((-E)..E) \X ((-E)..E) : <<q[1], q[2], q[3]>> # Zero3 }
Planes == { MkPlane(LP(p), n) : p \in Box(1), n \in DirsOf(B) }
          \* far points with steep normals: the support point chosen by the general-form constructor lies far out
          \cup { MkPlane(LP(p), n) : p \in { <<8, 4, -7>>, <<-8, 3, 5>>, <<6, -8, 7>> }, n \in { <<1, 1, 7>>, <<1, -2, 8>>, <<-1, 3, 6>>, <<2, 7, -1>>, <<1, 8, 3>> } }
Lines  == { MkLine(LP(p), u) : p \in Box(1), u \in DirsOf(B) }
ProbeBox == { LP(p) : p \in Box(2) }
Cases == { [t |-> "gf", q |-> q, pl |-> PlaneFromGeneral(q[1], q[2], q[3], q[4])] : q \in Quads }
         \cup { [t |-> "plane", q |-> <<0, 0, 0, 0>>, pl |-> pl] : pl \in { x \in Planes : InShard(x, x, SEED, NSHARD) \/ Abs(x.p[1]) > 2 } }
         \cup { [t |-> "line", q |-> <<0, 0, 0, 0>>, pl |-> l] : l \in { x \in Lines : InShard(x, x, SEED, NSHARD) } }
Init == c \in Cases
Next == UNCHANGED c
Spec == Init /\ [][Next]_vars
On  == { P \in ProbeBox : Mem(P, c.pl) } \cup {c.pl.p}
Off == { P \in ProbeBox : ~Mem(P, c.pl) }
Few(S, n) == IF Cardinality(S) <= n THEN S ELSE { SetToSeq(S)[i] : i \in 1..n }
\* the general form denotes exactly the solutions of the equation; three points span the plane; negation keeps the set
GeneralFormOK == c.t = "gf" => \A P \in ProbeBox : Mem(P, c.pl) <=> OnGeneral(P, c.q[1], c.q[2], c.q[3], c.q[4])
ThreePointsOK == c.t = "plane" => LET v == Perp1(c.pl.n) w == Perp2(c.pl.n)
                                     pl3 == PlaneFrom3(c.pl.p, HTrans(c.pl.p, v), HTrans(c.pl.p, w))
                                 IN SameSet(pl3, c.pl) /\ SameSet(PlaneFromPVV(c.pl.p, v, w), c.pl) /\ SameSet(NegPlane(c.pl), c.pl)
                                    /\ NegPlane(c.pl).n = Neg(c.pl.n)
LineFormsOK == c.t = "line" => SameSet(LineFromPP(c.pl.p, HTrans(c.pl.p, c.pl.u)), c.pl) /\ SameSet(MkLine(HTrans(c.pl.p, Scale(-2, c.pl.u)), Neg(c.pl.u)), c.pl)
Emit == PrintT(ToJson([t |-> c.t, q |-> c.q, o |-> c.pl, on |-> Few(On, 6), off |-> Few(Off, 6),
                       v |-> IF c.t = "line" THEN Zero3 ELSE Perp1(c.pl.n), w |-> IF c.t = "line" THEN Zero3 ELSE Perp2(c.pl.n)]))
=============================================================================
