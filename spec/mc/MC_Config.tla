----------------------------- MODULE MC_Config -----------------------------
(***************************************************************************)
(* C19: every setter history up to MaxLen (BFS, calls kept in the state so *)
(* each history is one state) with the expected configuration, and the     *)
(* comparison catalogue: objects whose coordinates are multiples of 1/8    *)
(* (scale 4 here, the harness poses them in axis / Pythagorean frames with *)
(* k in {1/2, 1, 2}), a defining coordinate to perturb, a delta class, and *)
(* the expected verdict under whatever configuration is current.           *)
(***************************************************************************)
EXTENDS G3DConfig, G3DBodies, G3DRel, TLC, Json
CONSTANTS S

V3(a, b, c) == <<a, b, c>>
Catalogue == << MkPoint(LP(V3(S, -2 * S, 3))), MkVector(V3(S, 2, -S)),
                MkLine(LP(V3(S, 0, 1)), V3(1, 0, 0)), MkLine(LP(V3(0, S, 2)), V3(0, 0, 1)),
                MkHalfLine(LP(V3(1, S, S)), V3(0, 1, 0)), MkSegment(LP(V3(0, 0, 0)), LP(V3(2 * S, 0, 0))),
                MkSegment(LP(V3(S, 1, 0)), LP(V3(S, 1, 3 * S))),
                MkPlane(LP(V3(S, S, 2)), V3(0, 0, 1)), MkPlane(LP(V3(1, 0, 0)), V3(1, 0, 0)),
                Polygon("sq", S), Polygon("trap", S), Polyhedron("cube", S), Polyhedron("box", S) >>
\* the defining points of an object, in the order the replayer perturbs them
DefPoints(o) == CASE o.k = "Point" -> <<o.p>> [] o.k \in {"Line", "HalfLine", "Plane"} -> <<o.p>>
                  [] o.k = "Segment" -> <<o.a, o.b>> [] o.k = "Polygon" -> o.cyc
                  [] o.k = "Polyhedron" -> SetToSeq(o.vs) [] o.k = "Vector" -> <<>>
NDef(o) == IF o.k = "Vector" THEN 1 ELSE Len(DefPoints(o))
Comparisons == { [obj |-> n, pt |-> i, axis |-> ax, delta |-> d, same |-> SameTol(d)]
                 : n \in 1..Len(Catalogue), i \in 1..4, ax \in 1..3, d \in Deltas }
Cmp == { c \in Comparisons : c.pt <= NDef(Catalogue[c.obj]) /\ (c.delta = "Big" => Catalogue[c.obj].k \in {"Point", "Vector"}) }

EmitHist == calls = <<>> \/ PrintT(ToJson([calls |-> calls, cfg |-> cfg, s |-> S,
                                          objs |-> Catalogue, defs |-> [n \in 1..Len(Catalogue) |-> DefPoints(Catalogue[n])], cmp |-> Cmp]))
=============================================================================
