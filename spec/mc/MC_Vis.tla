------------------------------- MODULE MC_Vis -------------------------------
(***************************************************************************)
(* Scenes of the visualizer (G3DVis): every history of at most MaxAdds     *)
(* add() calls over a catalogue that shares vertices, edges, faces and an  *)
(* explicit arrow between its items.  Model checking (VIEW without the     *)
(* history is not used here: the history IS the case) checks Denotes,      *)
(* EulerScene, EdgeClosed, ArrowsSane and Monotone on every history and    *)
(* prints the complete histories with the exact scene after every call.    *)
(* Run with  ./check X02 .                                                 *)
(***************************************************************************)
EXTENDS G3DVis, G3DCtor, Json
CONSTANTS SEED, NSHARD

Cube == Polyhedron("cube", 2)
Octa == Polyhedron("octa", 1)
Pyr  == Polyhedron("pyr", 1)
Tet  == Polyhedron("tet2", 2)
CubeFace == CHOOSE f \in Cube.fs : f.n = <<0, 0, -1>>
FacePoly == MkPolygon(CubeFace.cyc, CubeFace.n)
Catalogue == <<
   MkPoint(LP(<<0, 0, 0>>)),                                     \* a cube vertex
   MkPoint(LP(<<1, 1, 1>>)),                                     \* the apex of the pyramid, the cube's centre
   MkSegment(LP(<<2, 0, 0>>), LP(<<0, 0, 0>>)),                  \* a cube edge, in one direction
   MkSegment(LP(<<0, 0, 0>>), LP(<<2, 0, 0>>)),                  \* ... and in the other
   MkSegment(LP(<<0, 0, 0>>), LP(<<2, 2, 2>>)),                  \* a diagonal
   FacePoly,                                                     \* the cube's bottom face, oriented as the cube has it
   NegPolygon(FacePoly),                                         \* the same face, opposite orientation: only the arrow differs
   Polygon("pentObl", 1),
   Cube, Octa, Pyr, Tet,
   [k |-> "Arrow", c |-> Centroid(Range(CubeFace.cyc)), n |-> CubeFace.n, len |-> 2, of |-> CubeFace.cyc],   \* the arrow the bottom face gets at normal length 2
   MkLine(LP(<<0, 0, 0>>), <<1, 0, 0>>), MkPlane(LP(<<0, 0, 0>>), <<0, 0, 1>>), MkHalfLine(LP(<<0, 0, 0>>), <<1, 1, 0>>) >>   \* rejected

VARIABLES steps          \* the scene sizes after every call (history variable, travels with hist)
mvars == <<pts, segs, arrs, hist, steps>>
Init == VInit /\ steps = <<>>
HCode(h) == LET q == [n \in DOMAIN h |-> h[n].i * 7 + h[n].st * 3 + h[n].nl] IN SumSeq([n \in DOMAIN q |-> q[n] * (2 * n + 1)])
Next == /\ VNext
        /\ steps' = Append(steps, [np |-> Cardinality(pts'), ns |-> Cardinality(segs'), na |-> Cardinality(arrs')])
Spec == Init /\ [][Next]_mvars
Emit == (Len(hist) = MaxAdds /\ (HCode(hist) + SEED) % NSHARD = 0) =>
           PrintT(ToJson([op |-> "scene", hist |-> hist, steps |-> steps, items |-> [n \in DOMAIN hist |-> Items[hist[n].i]],
                          pts |-> pts, segs |-> segs, arrs |-> arrs]))
=============================================================================
