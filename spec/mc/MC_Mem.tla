------------------------------- MODULE MC_Mem -------------------------------
(***************************************************************************)
(* Membership cases (C05): `x in S` for every supported pair.  Containers  *)
(* are flats at the origin (lattice scaled by S) and catalogue bodies;     *)
(* candidates are built from the integer points of the container's         *)
(* expanded bounding box, i.e. in units of 1/S of the container's lattice: *)
(* interior points, every kind of boundary feature, points one step        *)
(* (1/S of a lattice unit) outside each feature, points on the carrier     *)
(* outside the extent, far points; sub-objects, partial overlaps and       *)
(* parallel displacements for the composite candidates.                    *)
(***************************************************************************)
EXTENDS G3DBodies, TLC, Json
CONSTANTS S, BODIES, KC, KX, B, SEED, NSHARD, NSHARDP, GENK, NGEN
VARIABLES ph, c, x, r
vars == <<ph, c, x, r>>

MemSupported(kx, kc) ==
  \/ kx = "Point"    /\ kc \in {"Line", "HalfLine", "Segment", "Plane", "Polygon", "Polyhedron"}
  \/ kx = "Segment"  /\ kc \in {"Line", "HalfLine", "Segment", "Plane", "Polygon", "Polyhedron"}
  \/ kx = "HalfLine" /\ kc \in {"Line", "HalfLine", "Plane"}
  \/ kx = "Line"     /\ kc = "Plane"
  \/ kx = "Polygon"  /\ kc \in {"Plane", "Polyhedron"}

ScaleObj(o) == CASE o.k = "Segment" -> MkSegment(LP(Scale(S, XYZ(o.a))), LP(Scale(S, XYZ(o.b))))
                 [] o.k \in {"Line", "HalfLine"} -> [o EXCEPT !.p = LP(Scale(S, XYZ(o.p)))]
                 [] o.k = "Plane" -> [o EXCEPT !.p = LP(Scale(S, XYZ(o.p)))]
Containers == { ScaleObj(o) : o \in UNION { FlatObjs(k, {Zero3}, B) : k \in KC \cap FlatKinds } }
              \cup { Body(nm, S) : nm \in BODIES } \cup GenHullSample(GENK, 2, S, SEED, NGEN)
Anchor(o) == IF o.k \in BodyKinds THEN Vertices(o)
             ELSE IF o.k = "Segment" THEN {o.a, o.b} ELSE {o.p, HTrans(o.p, Scale(S, IF o.k = "Plane" THEN Perp1(o.n) ELSE o.u))}
Pts == BBoxPts(Anchor(c), 1)
\* second and third corner of candidate triangles: two thinned copies of the box points
Q1 == { q \in Pts : InShard(MkPoint(LP(q)), c, SEED, 13) }
Q2 == { q \in Pts : InShard(MkPoint(LP(q)), c, SEED + 1, 17) }
\* candidates anchored at the box point p
CandAt(p) ==
  UNION { CASE k = "Point"    -> { MkPoint(LP(p)) }
            [] k = "Segment"  -> { MkSegment(LP(p), LP(q)) : q \in Pts \ {p} }
            [] k = "HalfLine" -> { MkHalfLine(LP(p), u) : u \in DirsOf(B) }
            [] k = "Line"     -> { MkLine(LP(p), u) : u \in UDirsOf(B) }
            [] k = "Polygon"  -> { HullPolygon({LP(p), LP(q[1]), LP(q[2])}) :
                                   q \in { q \in Q1 \X Q2 : Cross(Sub(q[1], p), Sub(q[2], p)) # Zero3 } }
          : k \in { k \in KX : MemSupported(k, c.k) } }

Init == ph = 1 /\ c \in Containers /\ x = NoneObj /\ r = FALSE
Next == \/ ph = 1 /\ ph' = 2 /\ c' = c /\ x' \in { MkPoint(LP(p)) : p \in Pts } /\ r' = r
        \* composite candidates anchored at a point OF the container are kept four times as often: contained and partly contained
        \* candidates are rare among all candidates, and they are the ones that matter
        \/ ph = 2 /\ ph' = 3 /\ c' = c
           /\ LET nsh == IF Mem(x.p, c) THEN Max(1, NSHARD \div 4) ELSE NSHARD
              IN x' \in { y \in CandAt(XYZ(x.p)) : InShard(y, c, SEED, IF y.k = "Point" THEN NSHARDP ELSE nsh) }
           /\ r' = Subset(x', c)
Spec == Init /\ [][Next]_vars

\* L1 (generators) against L0 (pointwise) on probe points of the candidate
ProbePts(o) == CASE o.k = "Point" -> {o.p} [] o.k = "Segment" -> {o.a, o.b, HMid(o.a, o.b)}
                 [] o.k \in {"Line", "HalfLine"} -> {o.p, HTrans(o.p, o.u), HTrans(o.p, Scale(5, o.u))} \cup (IF o.k = "Line" THEN {HTrans(o.p, Scale(-7, o.u))} ELSE {})
                 [] o.k = "Polygon" -> Range(o.cyc) \cup {HMid(o.cyc[1], o.cyc[2])}
SubsetSound   == ph = 3 => (r => \A P \in ProbePts(x) : Mem(P, c))
\* when the answer is FALSE there is a witness point of x outside c among generators and far points
SubsetWitness == ph = 3 => (~r => \E P \in ProbePts(x) \cup { HTrans(Base(x), Scale(k, Dir(x))) : k \in IF Is1D(x) /\ x.k # "Segment" THEN {1000, -1000} ELSE {} } :
                                    Mem(P, x) /\ ~Mem(P, c))
\* agreement with intersection: x in c  <=>  Inter(x, c) = x  (where Inter is defined on the pair)
SubsetIffInter == ph = 3 => (x.k \in FlatKinds /\ c.k \in FlatKinds => (r <=> SameSet(Inter(x, c), x)))
Cls == IF x.k = "Point" THEN PosClass(x.p, c)
       ELSE IF r THEN "inside" ELSE IF \E P \in GenPoints(x) : Mem(P, c) THEN "partial" ELSE "outside"
Emit == ph < 3 \/ PrintT(ToJson([x |-> x, c |-> c, s |-> S, exp |-> r, cls |-> <<x.k, c.k, Cls>>]))
=============================================================================
