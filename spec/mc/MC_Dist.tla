------------------------------ MODULE MC_Dist ------------------------------
(* distance cases (C10): documented pairs among Point, Line, Plane, both orders *)
EXTENDS G3DUniv, G3DMeasure, TLC, Json
CONSTANTS B, KA, KB, SEED, NSHARD
VARIABLES ph, a, b
vars == <<ph, a, b>>
UA == UNION { FlatObjs(k, {Zero3}, B) : k \in KA }
UB == UNION { FlatObjs(k, Box(B), B) : k \in KB }
Init == ph = 1 /\ a \in UA /\ b = NoneObj
Next == ph = 1 /\ ph' = 2 /\ a' = a /\ b' \in { x \in UB : DistSupported(a, x) /\ InShard(a, x, SEED, NSHARD) }
Spec == Init /\ [][Next]_vars

DistSymmetric   == ph = 2 => Dist2(a, b) = Dist2(b, a)
DistNonNeg      == ph = 2 => Dist2(a, b)[1] >= 0 /\ Dist2(a, b)[2] > 0
DistZeroIffMeet == ph = 2 => (Dist2(a, b)[1] = 0 <=> Inter(a, b).k # "None")
\* lower-bound sanity against the generators: no pair of generator points is closer than the distance
DistLowerBound  == ph = 2 => \A P \in GenPoints(a), Q \in GenPoints(b) : RLeq(Dist2(a, b), HDist2(P, Q))
Emit == ph = 1 \/ PrintT(ToJson([a |-> a, b |-> b, d2 |-> Dist2(a, b), meet |-> Inter(a, b).k # "None"]))
=============================================================================
