------------------------------ MODULE MC_Pure ------------------------------
(***************************************************************************)
(* C20: purity of queries and ownership of constructor arguments.  One     *)
(* session heap whose composites are all built from four shared Points     *)
(* (and a polyhedron built from four of the polygons of the same heap);    *)
(* histories over Query (all operand pairs, every query), Move (of objects *)
(* other composites were built from), Mutate (of the shared Points) and    *)
(* Copy.  The replayer snapshots every live object after every step.       *)
(***************************************************************************)
EXTENDS G3DSession, Json
CONSTANTS S, SEED, NSHARD

A == <<0, 0, 0>>  B == <<S, S, 0>>  C == <<S, 0, S>>  D == <<0, S, S>>  E == <<S, 2 * S, -S>>
\* shared constructor arguments: four Points and two Vectors (all integer triples; Mutate adds to any of them in place)
MCArgPts == <<A, B, C, D, Sub(B, A), Sub(C, A)>>
MCArgKinds == <<"P", "P", "P", "P", "V", "V">>
Tri(p, q, r) == HullPolygon({LP(p), LP(q), LP(r)})
\* how the replayer must construct each heap object: from shared argument Points (by index) or from other heap objects
MCBuild == << [k |-> "Segment", args |-> <<1, 2>>], [k |-> "HalfLine", args |-> <<1, 3>>], [k |-> "Line", args |-> <<1, 4>>],
              [k |-> "Polygon", args |-> <<1, 2, 3>>], [k |-> "Polygon", args |-> <<1, 2, 4>>],
              [k |-> "Polygon", args |-> <<1, 3, 4>>], [k |-> "Polygon", args |-> <<2, 3, 4>>],
              [k |-> "Polyhedron", args |-> <<4, 5, 6, 7>>], [k |-> "Plane", args |-> <<>>], [k |-> "Point", args |-> <<>>],
              [k |-> "SegmentPV", args |-> <<1, 5>>], [k |-> "HalfLinePV", args |-> <<1, 6>>],
              [k |-> "HalfLineX", args |-> <<>>], [k |-> "HalfLineX", args |-> <<>>], [k |-> "HalfLineX", args |-> <<>>],
              [k |-> "LineX", args |-> <<>>],
              \* objects derived from other live objects: -polygon (5), the polyhedron's own move() result is covered by Move
              [k |-> "Neg", args |-> <<5>>] >>
MCHeap == << MkSegment(LP(A), LP(B)), MkHalfLine(LP(A), Sub(C, A)), MkLine(LP(A), Sub(D, A)),
             Tri(A, B, C), Tri(A, B, D), Tri(A, C, D), Tri(B, C, D),
             HullBody({LP(A), LP(B), LP(C), LP(D)}), MkPlane(LP(B), <<1, -1, 2>>), MkPoint(LP(E)),
             MkSegment(LP(A), LP(B)), MkHalfLine(LP(A), Sub(C, A)),
             \* collinear with object 2 (A -> C): facing it from C, back to back at A, facing it from beyond C
             MkHalfLine(LP(C), Sub(A, C)), MkHalfLine(LP(A), Sub(A, C)), MkHalfLine(LP(Add(C, Sub(C, A))), Sub(A, C)),
             \* the carrier of segments 1 and 11, directed against them
             MkLine(LP(B), Sub(A, B)),
             \* -Tri(A, B, D): the same point set with the opposite orientation, built from live object 5
             MkPolygon(CCWCycle(Range(Tri(A, B, D).cyc), Neg(Tri(A, B, D).n)), Neg(Tri(A, B, D).n)) >>
MCObjChoices == { MCHeap }
MCMoveVecs   == { <<S, 0, 0>>, <<1, 2, -1>>, <<0, 0, -S>> }
MCProbes     == <<>>
AllOps       == {"intersection", "in", "distance", "angle", "parallel", "orthogonal", "eq", "measure", "hash", "repr"}

InMyShard == NSHARD = 1 \/ (Mix(SumSeq([n \in 1..Len(hist) |->
                 IF hist[n].act = "Query" THEN (hist[n].i * 17 + hist[n].j * 5 + n * 131 + Len(hist[n].op)) ELSE IF hist[n].act = "Move" THEN MixV(n + hist[n].id, hist[n].v)
                 ELSE IF hist[n].act = "Mutate" THEN MixV(n * 3 + hist[n].k, hist[n].v) ELSE n * 7 + hist[n].id]), SEED) % NSHARD) = 0
\* the polyhedron (8) keeps its value when the polygons it was built from (4..7) are moved, and everything keeps
\* its value when the shared Points are mutated: heap[i] changes only by Move(i, _)
OwnInv == [][\A i \in DOMAIN heap : heap'[i] # heap[i] => (hist' # hist /\ hist'[Len(hist')].act \in {"Move", "MoveKeep"} /\ hist'[Len(hist')].id = i)]_vars
\* quick tier: histories that start with a state-changing call (query-after-query is covered by the simulated histories and the pair jobs)
FirstNotQuery == Len(hist) >= 1 => hist[1].act # "Query"
Emit == (Len(hist) < MaxDepth \/ ~InMyShard)
        \/ PrintT(ToJson([hist |-> WithAnswers(hist), build |-> MCBuild, args0 |-> MCArgPts, argk |-> MCArgKinds, heap0 |-> orig, heap |-> heap, args |-> args, s |-> S]))
=============================================================================
