------------------------------ MODULE MC_Shapes ------------------------------
(* C14: builder calls with their expected structure and closed forms *)
EXTENDS G3DBuild, TLC, Json
CONSTANTS NS, N1S, N2S, B, SEED, NSHARD
VARIABLES c
vars == <<c>>
V3(x, y, z) == <<x, y, z>>
Centres == { V3(0, 0, 0), V3(1, -2, 3), V3(-3, 1, 0), V3(-2, 0, 0), V3(0, -2, 0), V3(0, 0, -2) }
Radii   == { <<1, 2>>, <<1, 1>>, <<3, 2>>, <<5, 1>>, <<31, 4>> }
AxisDirs    == DirsOf(1) \cup { V3(2, 3, 6), V3(1, 2, 2), V3(40, 1, 0), V3(-40, 0, 1), V3(0, 1, -40), V3(1, 2, -1) }
Trip    == { t \in DirsOf(1) \X DirsOf(1) \X DirsOf(1) : Det3(t[1], t[2], t[3]) # 0 }
Cases ==
  { [b |-> "Circle", o |-> o, r |-> r, ax |-> ax, n |-> n, n2 |-> 0] : o \in Centres, r \in Radii, ax \in AxisDirs, n \in NS }
  \cup { [b |-> k, o |-> o, r |-> r, ax |-> ax, n |-> n, n2 |-> 0] : k \in {"Cylinder", "Cone"}, o \in Centres, r \in Radii, ax \in AxisDirs, n \in NS }
  \cup { [b |-> "Sphere", o |-> o, r |-> r, ax |-> V3(0, 0, 1), n |-> n1, n2 |-> n2] : o \in Centres, r \in Radii, n1 \in N1S, n2 \in N2S }
  \cup { [b |-> "Parallelogram", o |-> o, r |-> <<1, 1>>, ax |-> Zero3, n |-> 0, n2 |-> 0, vs |-> <<t[1], t[2]>>] : o \in Centres, t \in { t \in DirsOf(B) \X DirsOf(B) : ~ParallelV(t[1], t[2]) } }
  \cup { [b |-> "Parallelepiped", o |-> o, r |-> <<1, 1>>, ax |-> Zero3, n |-> 0, n2 |-> 0, vs |-> <<t[1], t[2], t[3]>>] : o \in Centres, t \in Trip }
CaseCode(x) == Mix(MixV(MixV(Mix(Len(x.b), x.n * 7 + x.n2), x.o), x.ax), x.r[1] * 5 + x.r[2])
CodeV(x) == IF "vs" \in DOMAIN x THEN MixV(MixV(CaseCode(x), x.vs[1]), x.vs[2]) + (IF Len(x.vs) = 3 THEN MixV(3, x.vs[3]) ELSE 0) ELSE CaseCode(x)
\* axis-aligned unit boxes / unit parallelograms are always kept (integer coordinates such as -1 / -2 collide in CPython's hash)
UnitAxes == { V3(1, 0, 0), V3(0, 1, 0), V3(0, 0, 1) }
Special(x) == "vs" \in DOMAIN x /\ \A i \in DOMAIN x.vs : x.vs[i] \in UnitAxes
Init == c \in { x \in Cases : NSHARD = 1 \/ Special(x) \/ (CodeV(x) + SEED) % NSHARD = 0 }
Next == UNCHANGED c
Spec == Init /\ [][Next]_vars

\* |axis| as an expression (the height vector of Cylinder / Cone is the axis vector itself)
H == Sqrt(Rat(Norm2(c.ax), 1))
Rr == Rat(c.r[1], c.r[2])
Shape == CASE c.b = "Circle" -> CircleShape(Rr, c.n) [] c.b = "Cylinder" -> CylinderShape(Rr, H, c.n)
           [] c.b = "Cone" -> ConeShape(Rr, H, c.n) [] c.b = "Sphere" -> SphereShape(Rr, c.n, c.n2)
           [] OTHER -> [V |-> 0, E |-> 0, F |-> 0]
TheBody == IF c.b = "Parallelogram" THEN ParallelogramBody(c.o, c.vs[1], c.vs[2]) ELSE ParallelepipedBody(c.o, c.vs[1], c.vs[2], c.vs[3])
Round == c.b \in {"Circle", "Cylinder", "Cone", "Sphere"}
\* ---- checks on the specification itself
EulerOK == (Round /\ c.b # "Circle") => Shape.V - Shape.E + Shape.F = 2
\* with n = 4 every trigonometric value in the circle / cylinder closed forms is rational: a 4-gon of circumradius r has
\* area 2 r^2, the cylinder (a box with a square base of side r sqrt 2) has volume 2 r^2 |h|
Square4OK == (c.b = "Circle" /\ c.n = 4) => (ExactTree(Shape.area) /\ EvalRat(Shape.area) = RMul(<<2, 1>>, RMul(c.r, c.r)))
PipedVolOK == c.b = "Parallelepiped" => Measures(TheBody).vol = <<Abs(Det3(c.vs[1], c.vs[2], c.vs[3])), 1>>
PgramAreaOK == c.b = "Parallelogram" => Measures(TheBody).area.rs[1] = Norm2(Cross(c.vs[1], c.vs[2])) * Measures(TheBody).area.den * Measures(TheBody).area.den
Emit == PrintT(ToJson(IF Round THEN [c |-> c, shape |-> Shape, h |-> H] ELSE [c |-> c, body |-> TheBody, m |-> Measures(TheBody)]))
=============================================================================
