---------------------------- MODULE MC_FlatBody ----------------------------
(***************************************************************************)
(* Flat x body cases (C02; body cells of C04, C05, C12).  Init chooses a   *)
(* catalogue body K (scaled by S so that half-lattice features are         *)
(* integral), Next a flat built from the integer points of K's expanded    *)
(* bounding box: this produces generic positions and, densely, every       *)
(* degenerate one (through vertices / edges, in a face plane, along an     *)
(* edge, tangent, inside, endpoint on the boundary).                       *)
(***************************************************************************)
EXTENDS G3DBodies, G3DMeasure, G3DAlg, TLC, Json
CONSTANTS S, BODIES, KF, SEED, NSHARD, NXCHECK, GENK, NGEN
VARIABLES ph, body, f, r      \* r: the exact intersection, computed once per case
vars == <<ph, body, f, r>>

\* flats anchored at the box point p
FlatsAt(K, p) ==
  LET pts == BBoxPts(Vertices(K), 1)
  IN UNION { CASE k = "Segment" -> { MkSegment(LP(p), LP(q)) : q \in pts \ {p} }
               [] k = "Line"    -> { MkLine(LP(p), u) : u \in UDirsOf(2) }
               [] k = "HalfLine" -> { MkHalfLine(LP(p), u) : u \in DirsOf(2) }
               [] k = "Plane"   -> { MkPlane(LP(p), n) : n \in UDirsOf(2) }
               [] k = "Point"   -> { MkPoint(LP(p)) } : k \in KF }

\* three levels so that successor generation is spread over all workers: body, anchor point, flat
Init == ph = 1 /\ body \in { Body(nm, S) : nm \in BODIES } \cup GenHullSample(GENK, 2, S, SEED, NGEN) /\ f = NoneObj /\ r = NoneObj
Next == \/ ph = 1 /\ ph' = 2 /\ body' = body /\ f' \in { MkPoint(LP(p)) : p \in BBoxPts(Vertices(body), 1) } /\ r' = r
        \/ ph = 2 /\ ph' = 3 /\ body' = body /\ f' \in { x \in FlatsAt(body, XYZ(f.p)) : InShard(x, body, SEED, NSHARD) }
           /\ r' = Inter(f', body)
Spec == Init /\ [][Next]_vars

BodyOK   == ph = 1 => IF body.k = "Polyhedron" THEN BodySane(body) ELSE PolygonSane(body)
Typed    == ph = 3 => r.k \in DocKinds(f.k, body.k)
InBoth   == ph = 3 => (r.k # "None" => Subset(r, f) /\ Subset(r, body))
\* the two definitions agree (checked on a shard: vertex enumeration is the expensive one)
AnalyticEqGeneric == (ph = 3 /\ HasAnalytic(f, body) /\ InShard(body, f, SEED, NXCHECK)) =>
                        SameSet(InterAnalytic(f, body), InterGeneric(f, body))
\* maximality on probes: a box point that is in both operands is in the result
Probes == { LP(p) : p \in BBoxPts(Vertices(body), 0) }
ProbesAgree == (ph = 3 /\ InShard(body, f, SEED, NXCHECK)) =>
                 \A P \in Probes : Mem(P, r) <=> (Mem(P, f) /\ Mem(P, body))

Flags == <<f.k, body.k, r.k,
              IF r.k = "Point" THEN PosClass(r.p, body) ELSE IF r.k = "Segment" THEN PosClass(HMid(r.a, r.b), body) ELSE "-">>
\* L2: the library's handler for this pair, as written, gives the exact intersection and never reaches a "Bug" branch
L2Refines == (ph = 3 /\ HasL2Body(f, body) /\ InShard(body, f, SEED + 3, NXCHECK)) => SameSet(L2Body(f, body), r)
\* the exported helpers: the set of single-point hits of a segment on the faces and edges of a polyhedron / on the edges
\* of a polygon (overlaps along a face or an edge contribute nothing), and the extreme pair of a collinear point list
FacePolys(K) == FacesOf(K)
BodyEdges(K) == IF K.k = "Polygon" THEN PolyEdges(K) ELSE EdgesOf(K)
PointHits(s, objs) == { Inter(s, o).p : o \in { o \in objs : Inter(s, o).k = "Point" } }
Hits == IF f.k # "Segment" THEN {} ELSE IF body.k = "Polyhedron" THEN PointHits(f, FacePolys(body)) \cup PointHits(f, BodyEdges(body))
        ELSE PointHits(f, BodyEdges(body))
\* every hit is a point of both operands, and (polyhedron) a segment not lying in a face plane that crosses the boundary is found
HitsSound == ph = 3 => \A P \in Hits : Mem(P, f) /\ Mem(P, body)
Emit == ph < 3 \/ PrintT(ToJson([a |-> f, b |-> body, s |-> S, exp |-> r, doc |-> DocKinds(f.k, body.k), cls |-> Flags, m |-> Measures(r),
                                    hits |-> IF f.k = "Segment" THEN [ok |-> TRUE, pts |-> Hits] ELSE [ok |-> FALSE, pts |-> {}]]))
=============================================================================
