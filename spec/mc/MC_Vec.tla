------------------------------- MODULE MC_Vec -------------------------------
(***************************************************************************)
(* C18: the component formulas of G3DVec evaluated on the grid G^6 with    *)
(* G = {-1,0,1,2} (multilinear forms are determined by their values on a   *)
(* 2^6 sub-grid; the rest is margin), the algebraic identities, and the    *)
(* promotion lattice of coordinate types.                                  *)
(***************************************************************************)
EXTENDS G3DVec, TLC, Json
CONSTANTS GRID, SEED, NSHARD
VARIABLES ph, a, b
vars == <<ph, a, b>>
GridDef == -1..2
G3 == GRID \X GRID \X GRID
Init == ph = 1 /\ a \in G3 /\ b = Zero3
Next == ph = 1 /\ ph' = 2 /\ a' = a /\ b' \in { x \in G3 : NSHARD = 1 \/ (a[1] * 7 + a[2] * 31 + a[3] * 131 + x[1] * 3 + x[2] * 17 + x[3] * 61 + 1000 + SEED) % NSHARD = 0 }
Spec == Init /\ [][Next]_vars
K == 3
Identities == ph = 2 =>
  /\ Dot(a, Cross(a, b)) = 0 /\ Dot(b, Cross(a, b)) = 0
  /\ Cross(a, b) = Neg(Cross(b, a))
  /\ Norm2(Cross(a, b)) = Norm2(a) * Norm2(b) - Dot(a, b) * Dot(a, b)
  /\ Add(a, b) = Add(b, a) /\ Sub(a, b) = Add(a, Neg(b)) /\ Scale(K, Add(a, b)) = Add(Scale(K, a), Scale(K, b))
  /\ Dot(a, b) = Dot(b, a)
Emit == ph = 1 \/ PrintT(ToJson([a |-> a, b |-> b, k |-> K, add |-> Add(a, b), sub |-> Sub(a, b), neg |-> Neg(a), smul |-> Scale(K, a),
                                 dot |-> Dot(a, b), cross |-> Cross(a, b), frompts |-> Sub(b, a), len2 |-> Norm2(a),
                                 dotsign |-> Sign(Dot(a, b)), cos2 |-> IF IsZero(a) \/ IsZero(b) THEN <<0, 0>> ELSE R(Dot(a, b) * Dot(a, b), Norm2(a) * Norm2(b))]))
\* promotion: rank of the coordinate types, the most general one wins
TypeRank == [int |-> 1, float |-> 2, decimal |-> 3, fraction |-> 4, user |-> 5]
Types == {"int", "float", "decimal", "fraction", "user"}
Promote(t1, t2, t3) == CHOOSE t \in {t1, t2, t3} : \A u \in {t1, t2, t3} : TypeRank[u] <= TypeRank[t]
PromotionTable == { <<t, Promote(t[1], t[2], t[3])>> : t \in Types \X Types \X Types }
PromotionIdempotent == \A t \in Types : Promote(t, t, t) = t
EmitPromotion == ph = 2 \/ a # (CHOOSE x \in G3 : TRUE) \/ PrintT(ToJson([promotion |-> PromotionTable]))
=============================================================================
