------------------------------- MODULE MC_Rel -------------------------------
(* angle / parallel / orthogonal cases (C11): Line, Plane, Vector operands; every length ratio *)
EXTENDS G3DUniv, G3DRel, TLC, Json
CONSTANTS B, KA, KB, SEED, NSHARD
VARIABLES ph, a, b
vars == <<ph, a, b>>
Ratios == {1, 2, 3, 5}
RelObjs(kind, pts) ==
  CASE kind = "Line"   -> { MkLine(LP(p), Scale(k * s, u)) : p \in pts, u \in UDirsOf(B), k \in Ratios, s \in {-1, 1} }
    [] kind = "Plane"  -> { MkPlane(LP(p), Scale(k * s, n)) : p \in pts, n \in UDirsOf(B), k \in Ratios, s \in {-1, 1} }
    [] kind = "Vector" -> { MkVector(Scale(k * s, u)) : u \in UDirsOf(B), k \in Ratios, s \in {-1, 1} }
UA == UNION { RelObjs(k, {Zero3}) : k \in KA }
UB == UNION { RelObjs(k, {<<1, 0, -1>>}) : k \in KB }
Init == ph = 1 /\ a \in UA /\ b = NoneObj
Next == ph = 1 /\ ph' = 2 /\ a' = a /\ b' \in { x \in UB : RelSupported(a, x) /\ InShard(MkPoint(LP(RelDir(a))), MkPoint(LP(RelDir(x))), SEED, NSHARD) }
Spec == Init /\ [][Next]_vars

Coherent  == ph = 2 => RelCoherent(a, b)
Symmetric == ph = 2 => AngleSpec(a, b) = AngleSpec(b, a) /\ ParallelRel(a, b) = ParallelRel(b, a) /\ OrthRel(a, b) = OrthRel(b, a)
Emit == ph = 1 \/ PrintT(ToJson([a |-> a, b |-> b, ang |-> AngleSpec(a, b), par |-> ParallelRel(a, b),
                                 orth |-> OrthRel(a, b), cls |-> AngleClass(a, b)]))
=============================================================================
