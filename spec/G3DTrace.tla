------------------------------ MODULE G3DTrace ------------------------------
(***************************************************************************)
(* Trace specification (code -> spec).  A trace is a sequence of top-level *)
(* public calls recorded from the real library (harness/recorder.py): the  *)
(* operation, exact snapshots of the operands before the call and of the   *)
(* result (and, for move, of the receiver, the return value and the cached *)
(* carrier line after the call).  Every event is checked against the       *)
(* specification's operators.  Verdicts are TOTAL and NAMED: a disagreeing *)
(* event never blocks the trace, it appends <<index, clause>> to `bad`,    *)
(* so the rest of the trace is still examined; a POSTCONDITION makes sure  *)
(* the whole trace was consumed.                                           *)
(***************************************************************************)
EXTENDS G3DBodies, G3DMeasure, G3DRel, G3DSolve, G3DAlg, Json, IOUtils, TLC

Trace == JsonDeserialize(IOEnv.TRACE_FILE)
VARIABLES l, bad, skipped
tvars == <<l, bad, skipped>>

SeqSet(s) == { s[i] : i \in DOMAIN s }
\* logged snapshot -> abstract object
Norm(o) == CASE o.k = "Polygon"    -> HullPolygon(SeqSet(o.vs))
             [] o.k = "Polyhedron" -> HullBody(SeqSet(o.vs))
             [] OTHER -> o
\* canonical form of a logged result (vertex sets for bodies)
CanonLogged(o) == CASE o.k = "Polygon" -> [k |-> "Polygon", c |-> SeqSet(o.vs)]
                    [] o.k = "Polyhedron" -> [k |-> "Polyhedron", c |-> SeqSet(o.vs)]
                    [] OTHER -> Canon(o)
Agrees(logged, exact) == logged.k = exact.k /\ CanonLogged(logged) = Canon(exact)

Flat(o) == o.k \in FlatKinds
InterClause(a, b) == IF Flat(a) /\ Flat(b) THEN "C01.intersection" ELSE IF Flat(a) \/ Flat(b) THEN "C02.intersection" ELSE "C03.intersection"
MemOK(x, y) == \/ x.k = "Point" /\ y.k # "Point"
               \/ x.k = "Segment" /\ y.k \in {"Line", "HalfLine", "Segment", "Plane", "Polygon", "Polyhedron"}
               \/ x.k = "HalfLine" /\ y.k \in {"Line", "HalfLine", "Plane"}
               \/ (x.k = "Line" /\ y.k = "Plane") \/ (x.k = "Polygon" /\ y.k \in {"Plane", "Polyhedron"})
TGeo7 == {"Point", "Line", "Plane", "Segment", "HalfLine", "Polygon", "Polyhedron"}

\* verdict of one event: "" = conforms, "skip" = outside the checked fragment, otherwise the failing clause
Verdict(e) ==
  CASE e.op = "intersection" ->
         IF ~(e.args[1].k \in TGeo7 /\ e.args[2].k \in TGeo7) THEN "skip"
         ELSE LET a == Norm(e.args[1])  b == Norm(e.args[2])
              IN IF e.res.k = "Exception" THEN "C04.total"
                 \* the handler that really ran is the one the dispatcher model names (L2 binding)
                 ELSE IF "h" \in DOMAIN e /\ e.h # Handler(a.k, b.k) THEN "C04.dispatch"
                 ELSE IF Agrees(e.res, Inter(a, b)) THEN "" ELSE InterClause(a, b)
    [] e.op = "in" ->
         IF ~(e.args[1].k \in TGeo7 /\ e.args[2].k \in TGeo7 /\ MemOK(e.args[1], e.args[2])) \/ e.res.k # "Bool" THEN "skip"
         ELSE IF e.res.b = Subset(Norm(e.args[1]), Norm(e.args[2])) THEN "" ELSE "C05.in"
    [] e.op = "distance" ->
         IF ~(e.args[1].k \in TGeo7 /\ e.args[2].k \in TGeo7 /\ DistSupported(e.args[1], e.args[2])) THEN "skip"
         ELSE IF e.res.k = "Exception" THEN "C10.total"
         ELSE IF R(e.res.q[1], e.res.q[2]) = Dist2(e.args[1], e.args[2]) THEN "" ELSE "C10.distance"
    [] e.op = "move" ->
         IF e.args[2].k # "Vector" \/ ~(e.args[1].k \in TGeo7) THEN "skip"
         ELSE IF "res" \in DOMAIN e THEN "C07.move_raises"
         ELSE LET x == Translate(Norm(e.args[1]), e.args[2].v)
              IN IF ~Agrees(e.post, x) THEN "C07.receiver"
                 ELSE IF ~Agrees(e.ret, x) THEN "C07.return_value"
                 ELSE IF "line" \in DOMAIN e /\ ~SameSet(e.line, MkLine(Base(x), Dir(x))) THEN "C07.cached_line"
                 ELSE ""
    [] e.op = "volume" ->
         IF e.res.k = "Exception" THEN "C06.volume_raises"
         ELSE LET body == Norm(e.args[1]) IN
              IF ~Small(body.vs, 30) THEN "skip"
              ELSE IF R(e.res.q[1], e.res.q[2]) = Measures(body).vol THEN "" ELSE "C06.volume"
    [] e.op = "length" ->
         IF e.res.k = "Exception" THEN "C06.length_raises"
         ELSE IF R(e.res.q[1], e.res.q[2]) = Len2(e.args[1]) THEN "" ELSE "C06.length"
    [] e.op = "area" ->
         IF e.res.k = "Exception" THEN "C06.area_raises"
         ELSE LET pg == Norm(e.args[1])  m == Measures(pg) IN
              IF m.area.den = 0 THEN "skip"
              ELSE IF R(e.res.q[1], e.res.q[2]) = R(m.area.rs[1], m.area.den * m.area.den) THEN "" ELSE "C06.area"
    \* angle (logged as the certified rational cos^2 of the returned value), parallel, orthogonal
    [] e.op \in {"angle", "parallel", "orthogonal"} ->
         IF ~(e.args[1].k \in {"Line", "Plane", "Vector"} /\ e.args[2].k \in {"Line", "Plane", "Vector"} /\ RelSupported(e.args[1], e.args[2])) THEN "skip"
         ELSE IF e.res.k = "Exception" THEN "C11.total"
         ELSE IF e.op = "parallel" THEN (IF e.res.k = "Bool" /\ e.res.b = ParallelRel(e.args[1], e.args[2]) THEN "" ELSE "C11.parallel")
         ELSE IF e.op = "orthogonal" THEN (IF e.res.k = "Bool" /\ e.res.b = OrthRel(e.args[1], e.args[2]) THEN "" ELSE "C11.orthogonal")
         ELSE LET s == AngleSpec(e.args[1], e.args[2])
                  c2 == IF s.fn = "acos_sqrt" THEN s.q ELSE RSub(<<1, 1>>, s.q)
              IN IF R(e.res.q[1], e.res.q[2]) = c2 THEN "" ELSE "C11.angle"
    \* the solver with integer / Fraction systems is exact: truthiness, number of free parameters and every returned tuple
    [] e.op = "solve" ->
         IF e.truthy # Consistent(e.m) THEN "C16.truthiness"
         ELSE IF e.truthy /\ e.varargs # FreeCount(e.m) THEN "C16.varargs" ELSE ""
    [] e.op = "solution_call" ->
         IF ~Consistent(e.m) THEN (IF "exc" \in DOMAIN e THEN "" ELSE "C16.inconsistent_called")
         ELSE IF "exc" \in DOMAIN e THEN (IF Len(e.params) = FreeCount(e.m) THEN "C16.call_raises" ELSE "")
         ELSE IF Len(e.x) = Unknowns(e.m) /\ IsSolution(e.m, [i \in 1..Len(e.x) |-> R(e.x[i][1], e.x[i][2])]) THEN "" ELSE "C16.not_a_solution"
    [] OTHER -> "skip"

TraceInit == l = 1 /\ bad = <<>> /\ skipped = 0
TraceNext == /\ l <= Len(Trace)
             /\ LET v == Verdict(Trace[l])
                IN /\ bad' = IF v \in {"", "skip"} THEN bad ELSE Append(bad, <<l, v>>)
                   /\ skipped' = IF v = "skip" THEN skipped + 1 ELSE skipped
             /\ l' = l + 1
TraceSpec == TraceInit /\ [][TraceNext]_tvars
Report == l <= Len(Trace) \/ PrintT(ToJson([events |-> Len(Trace), skipped |-> skipped, bad |-> bad]))
AllConsumed == TLCGet("stats").diameter = Len(Trace) + 1
=============================================================================
