------------------------------ MODULE G3DObj ------------------------------
(***************************************************************************)
(* Abstract geometric objects of Geometry3D (exact values), their          *)
(* constraint-system (H-representation) view, convex hulls of finite point *)
(* sets, canonical forms and translation.                                  *)
(*                                                                         *)
(*   Point      [k |-> "Point",      p |-> HP]                             *)
(*   Line       [k |-> "Line",       p |-> HP, u |-> vec]                  *)
(*   HalfLine   [k |-> "HalfLine",   p |-> HP, u |-> vec]                  *)
(*   Segment    [k |-> "Segment",    a |-> HP, b |-> HP]                   *)
(*   Plane      [k |-> "Plane",      p |-> HP, n |-> vec]                  *)
(*   Polygon    [k |-> "Polygon",    cyc |-> <<HP,..>> (ccw about n), n]   *)
(*   Polyhedron [k |-> "Polyhedron", vs |-> {HP}, fs |-> {[n,d,cyc]}]      *)
(*   None       [k |-> "None"]                                             *)
(*                                                                         *)
(* A half-space is [n |-> vec, d |-> Int], meaning n . x <= d, stored      *)
(* primitive (gcd of the four integers is 1) so that equal half-spaces are *)
(* equal records.                                                          *)
(***************************************************************************)
EXTENDS G3DVec

NoneObj == [k |-> "None"]
MkPoint(P)       == [k |-> "Point", p |-> P]
MkLine(P, u)     == [k |-> "Line", p |-> P, u |-> u]
MkHalfLine(P, u) == [k |-> "HalfLine", p |-> P, u |-> u]
MkSegment(A, B)  == [k |-> "Segment", a |-> A, b |-> B]
MkPlane(P, n)    == [k |-> "Plane", p |-> P, n |-> n]
MkPolygon(cyc, n) == [k |-> "Polygon", cyc |-> cyc, n |-> n]
MkPolyhedron(V, F) == [k |-> "Polyhedron", vs |-> V, fs |-> F]

Range(s) == {s[i] : i \in DOMAIN s}
FlatKinds == {"Point", "Line", "HalfLine", "Segment", "Plane"}
BodyKinds == {"Polygon", "Polyhedron"}
AllKinds  == FlatKinds \cup BodyKinds
Is1D(o)   == o.k \in {"Line", "HalfLine", "Segment"}

\* direction of a 1-D object and its base point
Dir(o)  == IF o.k = "Segment" THEN Prim(HDiff(o.b, o.a)) ELSE o.u
Base(o) == IF o.k = "Segment" THEN o.a ELSE o.p

---------------------------------------------------------------------------
\* Half-spaces
HSraw(a, d) == LET g == GCD(GCD3(a[1], a[2], a[3]), d)
               IN [n |-> <<Div(a[1], g), Div(a[2], g), Div(a[3], g)>>, d |-> Div(d, g)]
\* half-space with outward normal n whose boundary passes through the point P
HS(n, P)    == HSraw(Scale(P[4], n), Dot(n, XYZ(P)))
HSNeg(h)    == [n |-> Neg(h.n), d |-> -h.d]
OnBoundary(P, h) == HSide(P, h.n, h.d) = 0
InHS(P, h)       == HSide(P, h.n, h.d) <= 0

Axes == {<<1, 0, 0>>, <<0, 1, 0>>, <<0, 0, 1>>}
\* two independent integer normals orthogonal to u (u # 0)
Perp1(u) == LET e == IF ParallelV(u, <<1, 0, 0>>) THEN <<0, 1, 0>> ELSE <<1, 0, 0>> IN Prim(Cross(u, e))
Perp2(u) == Prim(Cross(u, Perp1(u)))

LineCons(P, u) == {HS(Perp1(u), P), HS(Neg(Perp1(u)), P), HS(Perp2(u), P), HS(Neg(Perp2(u)), P)}

\* outward edge normals of a ccw cycle about n
EdgeHS(cyc, n) == { LET i2 == IF i = Len(cyc) THEN 1 ELSE i + 1
                        e  == HDiff(cyc[i2], cyc[i])
                    IN HS(Prim(Cross(e, n)), cyc[i]) : i \in 1..Len(cyc) }

Cons(o) ==
  CASE o.k = "Point"      -> UNION {{HS(e, o.p), HS(Neg(e), o.p)} : e \in Axes}
    [] o.k = "Line"       -> LineCons(o.p, o.u)
    [] o.k = "HalfLine"   -> LineCons(o.p, o.u) \cup {HS(Neg(o.u), o.p)}
    [] o.k = "Segment"    -> LET u == Dir(o) IN LineCons(o.a, u) \cup {HS(Neg(u), o.a), HS(u, o.b)}
    [] o.k = "Plane"      -> {HS(o.n, o.p), HS(Neg(o.n), o.p)}
    [] o.k = "Polygon"    -> {HS(o.n, o.cyc[1]), HS(Neg(o.n), o.cyc[1])} \cup EdgeHS(o.cyc, o.n)
    [] o.k = "Polyhedron" -> {[n |-> f.n, d |-> f.d] : f \in o.fs}

---------------------------------------------------------------------------
\* Vertex enumeration: the vertices of the polyhedral set { x : \A h \in H : h.n . x <= h.d }
\* are the feasible solutions of three independent tight constraints (Cramer's rule).
Sol(h1, h2, h3) ==
  LET D   == Det3(h1.n, h2.n, h3.n)
      c23 == Cross(h2.n, h3.n)
      c31 == Cross(h3.n, h1.n)
      c12 == Cross(h1.n, h2.n)
  IN HP(h1.d * c23[1] + h2.d * c31[1] + h3.d * c12[1],
        h1.d * c23[2] + h2.d * c31[2] + h3.d * c12[2],
        h1.d * c23[3] + h2.d * c31[3] + h3.d * c12[3], D)
Feasible(P, H) == \A h \in H : InHS(P, h)
\* the boundary planes of H without orientation (h and -h are the same plane), as a sequence,
\* so that every unordered triple of distinct planes is tried exactly once
Unsign(h)  == IF LeadSign(h.n) < 0 THEN HSNeg(h) ELSE h
PlaneSeq(H) == SetToSeq({ Unsign(h) : h \in H })
Verts(H) ==
  LET ps == PlaneSeq(H)   n == Len(ps)
      tri == UNION { UNION { { <<i, j, k>> : k \in (j + 1)..n } : j \in (i + 1)..n } : i \in 1..n }
      ok  == { t \in tri : Det3(ps[t[1]].n, ps[t[2]].n, ps[t[3]].n) # 0 }
  IN { P \in { Sol(ps[t[1]], ps[t[2]], ps[t[3]]) : t \in ok } : Feasible(P, H) }

---------------------------------------------------------------------------
\* Counter-clockwise cycle (about n) of a set S of coplanar points in convex position
NextCCW(S, n, cur) == CHOOSE w \in S \ {cur} : \A x \in S : Dot(n, Cross(HDiff(w, cur), HDiff(x, cur))) >= 0
RECURSIVE CycFrom(_, _, _, _)
CycFrom(S, n, start, cur) == LET w == NextCCW(S, n, cur)
                             IN IF w = start THEN <<cur>> ELSE <<cur>> \o CycFrom(S, n, start, w)
CCWCycle(S, n) == LET s == CHOOSE x \in S : TRUE IN CycFrom(S, n, s, s)

\* normal of a non-collinear coplanar point set (some orientation)
SomeNormal(S) == LET t == CHOOSE t \in S \X S \X S : Cross(HDiff(t[2], t[1]), HDiff(t[3], t[1])) # Zero3
                 IN Prim(Cross(HDiff(t[2], t[1]), HDiff(t[3], t[1])))

\* supporting half-spaces of a full-dimensional finite point set
HullPlanes(V) ==
  LET tri  == { t \in V \X V \X V : Cross(HDiff(t[2], t[1]), HDiff(t[3], t[1])) # Zero3 }
      cand == { HS(Prim(Cross(HDiff(t[2], t[1]), HDiff(t[3], t[1]))), t[1]) : t \in tri }
  IN { h \in cand : \A v \in V : InHS(v, h) }
FaceOf(h, V)  == { v \in V : OnBoundary(v, h) }
FullDim(V)    == \E a, b, c, d \in V : Det3(HDiff(b, a), HDiff(c, a), HDiff(d, a)) # 0
IsVertexOf(v, H) == LET Hv == { h \in H : OnBoundary(v, h) } IN \E a, b, c \in Hv : Det3(a.n, b.n, c.n) # 0
ConvexPos3(V) == LET H == HullPlanes(V) IN \A v \in V : IsVertexOf(v, H)

\* polyhedron with vertex set V (full-dimensional, convex position) given its supporting half-spaces H
BodyFrom(V, H) == MkPolyhedron(V, { [n |-> h.n, d |-> h.d, cyc |-> CCWCycle(FaceOf(h, V), h.n)]
                                    : h \in { h \in H : Cardinality(FaceOf(h, V)) >= 3 /\ AffRank(FaceOf(h, V)) = 2 } })
HullBody(V)    == BodyFrom(V, HullPlanes(V))
\* polygon with vertex set V (coplanar, not collinear, convex position), oriented by n
PolygonFrom(V, n) == MkPolygon(CCWCycle(V, n), n)
HullPolygon(V)    == PolygonFrom(V, SomeNormal(V))
\* convex position in the plane: every point is a corner
ConvexPos2(V) == LET n == SomeNormal(V)
                 IN \A v \in V : \E w \in V \ {v} : \A x \in V \ {v, w} : Dot(n, Cross(HDiff(w, v), HDiff(x, v))) > 0

NumEdges(body) == LET tot == SumSeq([i \in 1..Cardinality(body.fs) |-> Len(SetToSeq(body.fs)[i].cyc)]) IN tot \div 2
Vertices(o) == CASE o.k = "Point" -> {o.p}
                 [] o.k = "Segment" -> {o.a, o.b}
                 [] o.k = "Polygon" -> Range(o.cyc)
                 [] o.k = "Polyhedron" -> o.vs
                 [] OTHER -> {}

---------------------------------------------------------------------------
\* Canonical forms: two objects denote the same point set iff their canonical forms are equal.
PlaneCanon(P, n) == LET h == HS(n, P) IN IF LeadSign(h.n) < 0 THEN HSNeg(h) ELSE h
LineCanon(P, u)  == LET U == SignNorm(u)
                        M == Cross(XYZ(P), U)
                        g == GCD(P[4], GCD3(M[1], M[2], M[3]))
                    IN <<Scale(Div(P[4], g), U), <<Div(M[1], g), Div(M[2], g), Div(M[3], g)>>>>
Canon(o) ==
  CASE o.k = "None"       -> [k |-> "None"]
    [] o.k = "Point"      -> [k |-> "Point", c |-> o.p]
    [] o.k = "Line"       -> [k |-> "Line", c |-> LineCanon(o.p, o.u)]
    [] o.k = "HalfLine"   -> [k |-> "HalfLine", c |-> <<o.p, Prim(o.u)>>]
    [] o.k = "Segment"    -> [k |-> "Segment", c |-> {o.a, o.b}]
    [] o.k = "Plane"      -> [k |-> "Plane", c |-> PlaneCanon(o.p, o.n)]
    [] o.k = "Polygon"    -> [k |-> "Polygon", c |-> Range(o.cyc)]
    [] o.k = "Polyhedron" -> [k |-> "Polyhedron", c |-> o.vs]
SameSet(a, b) == a.k = b.k /\ Canon(a) = Canon(b)     \* (kinds first: TLC cannot compare a tuple with a set)

---------------------------------------------------------------------------
\* Translation by an integer vector
TrCyc(cyc, v) == [i \in DOMAIN cyc |-> HTrans(cyc[i], v)]
Translate(o, v) ==
  CASE o.k = "None"       -> o
    [] o.k = "Point"      -> MkPoint(HTrans(o.p, v))
    [] o.k = "Line"       -> MkLine(HTrans(o.p, v), o.u)
    [] o.k = "HalfLine"   -> MkHalfLine(HTrans(o.p, v), o.u)
    [] o.k = "Segment"    -> MkSegment(HTrans(o.a, v), HTrans(o.b, v))
    [] o.k = "Plane"      -> MkPlane(HTrans(o.p, v), o.n)
    [] o.k = "Polygon"    -> MkPolygon(TrCyc(o.cyc, v), o.n)
    [] o.k = "Polyhedron" -> MkPolyhedron({HTrans(p, v) : p \in o.vs},
                               { LET c == TrCyc(f.cyc, v) h == HS(f.n, c[1]) IN [n |-> h.n, d |-> h.d, cyc |-> c] : f \in o.fs })

\* Validity of the abstract objects (the type invariants of the library's classes)
ValidObj(o) ==
  CASE o.k = "Point"      -> o.p[4] > 0
    [] o.k = "Line"       -> o.u # Zero3
    [] o.k = "HalfLine"   -> o.u # Zero3
    [] o.k = "Segment"    -> o.a # o.b
    [] o.k = "Plane"      -> o.n # Zero3
    [] o.k = "Polygon"    -> Len(o.cyc) >= 3 /\ CoplanarSet(Range(o.cyc)) /\ ~CollinearSet(Range(o.cyc))
    [] o.k = "Polyhedron" -> FullDim(o.vs) /\ Cardinality(o.vs) - NumEdges(o) + Cardinality(o.fs) = 2
    [] OTHER -> TRUE
===========================================================================
