--------------------------- MODULE Proofs_G3DVec ---------------------------
(***************************************************************************)
(* TLAPS: the vector identities of C18 hold for ALL integer coordinates     *)
(* (the component formulas are those of G3DVec, restated on scalars so     *)
(* that the SMT back end sees pure integer arithmetic).                    *)
(***************************************************************************)
EXTENDS Integers, TLAPS

Dot3(a1, a2, a3, b1, b2, b3) == a1 * b1 + a2 * b2 + a3 * b3
C1(a1, a2, a3, b1, b2, b3) == a2 * b3 - a3 * b2
C2(a1, a2, a3, b1, b2, b3) == a3 * b1 - a1 * b3
C3(a1, a2, a3, b1, b2, b3) == a1 * b2 - a2 * b1

THEOREM CrossOrthogonalA ==
  \A a1, a2, a3, b1, b2, b3 \in Int :
     Dot3(a1, a2, a3, C1(a1, a2, a3, b1, b2, b3), C2(a1, a2, a3, b1, b2, b3), C3(a1, a2, a3, b1, b2, b3)) = 0
  BY Z3 DEF Dot3, C1, C2, C3

THEOREM CrossOrthogonalB ==
  \A a1, a2, a3, b1, b2, b3 \in Int :
     Dot3(b1, b2, b3, C1(a1, a2, a3, b1, b2, b3), C2(a1, a2, a3, b1, b2, b3), C3(a1, a2, a3, b1, b2, b3)) = 0
  BY Z3 DEF Dot3, C1, C2, C3

THEOREM CrossAntiCommutes ==
  \A a1, a2, a3, b1, b2, b3 \in Int :
     /\ C1(a1, a2, a3, b1, b2, b3) = -C1(b1, b2, b3, a1, a2, a3)
     /\ C2(a1, a2, a3, b1, b2, b3) = -C2(b1, b2, b3, a1, a2, a3)
     /\ C3(a1, a2, a3, b1, b2, b3) = -C3(b1, b2, b3, a1, a2, a3)
  BY Z3 DEF C1, C2, C3

THEOREM Lagrange ==
  \A a1, a2, a3, b1, b2, b3 \in Int :
     Dot3(C1(a1, a2, a3, b1, b2, b3), C2(a1, a2, a3, b1, b2, b3), C3(a1, a2, a3, b1, b2, b3),
          C1(a1, a2, a3, b1, b2, b3), C2(a1, a2, a3, b1, b2, b3), C3(a1, a2, a3, b1, b2, b3))
     = Dot3(a1, a2, a3, a1, a2, a3) * Dot3(b1, b2, b3, b1, b2, b3) - Dot3(a1, a2, a3, b1, b2, b3) * Dot3(a1, a2, a3, b1, b2, b3)
  BY Z3 DEF Dot3, C1, C2, C3

THEOREM DotSymmetricBilinear ==
  \A a1, a2, a3, b1, b2, b3, c1, c2, c3, k \in Int :
     /\ Dot3(a1, a2, a3, b1, b2, b3) = Dot3(b1, b2, b3, a1, a2, a3)
     /\ Dot3(a1 + c1, a2 + c2, a3 + c3, b1, b2, b3) = Dot3(a1, a2, a3, b1, b2, b3) + Dot3(c1, c2, c3, b1, b2, b3)
     /\ Dot3(k * a1, k * a2, k * a3, b1, b2, b3) = k * Dot3(a1, a2, a3, b1, b2, b3)
  BY Z3 DEF Dot3
=============================================================================
