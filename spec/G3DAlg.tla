------------------------------- MODULE G3DAlg -------------------------------
(***************************************************************************)
(* L2: implementation-shaped models of parts of Geometry3D/calc/           *)
(* intersection.py (same case order, same sub-calls, exact arithmetic,     *)
(* hash sets modelled as sets of exact points).  TLC checks  L2 refines L1 *)
(* (MC_Alg2); the recorder logs which handler really ran and the trace     *)
(* specification checks it against Dispatch.                               *)
(***************************************************************************)
EXTENDS G3DInter

\* ---- the dispatcher: 49 ordered pairs -> one of 28 handlers, called with the operands in the handler's own order
HRank == [Point |-> 0, Line |-> 1, Plane |-> 2, Segment |-> 3, Polygon |-> 4, Polyhedron |-> 5, HalfLine |-> 6]
LibName == [Point |-> "point", Line |-> "line", Plane |-> "plane", Segment |-> "segment", Polygon |-> "convexpolygon",
            Polyhedron |-> "convexpolyhedron", HalfLine |-> "halfline"]
Geo7k == {"Point", "Line", "Plane", "Segment", "HalfLine", "Polygon", "Polyhedron"}
\* handler name as in the source (inter_<x>_<y>), lower-cased
Handler(ka, kb) == LET lo == IF HRank[ka] <= HRank[kb] THEN ka ELSE kb
                       hi == IF HRank[ka] <= HRank[kb] THEN kb ELSE ka
                   IN "inter_" \o LibName[lo] \o "_" \o LibName[hi]
Handlers == { Handler(ka, kb) : ka \in Geo7k, kb \in Geo7k }
DispatchTotal     == Cardinality(Handlers) = 28
DispatchSymmetric == \A ka \in Geo7k, kb \in Geo7k : Handler(ka, kb) = Handler(kb, ka)

\* ---- the collinear handlers: the result is assembled from the endpoints that lie in the other operand
\* inter_segment_segment
SegSegL2(a, b) ==
  IF SameSet(MkLine(a.a, Dir(a)), MkLine(b.a, Dir(b)))
  THEN LET ps == { P \in {a.a, a.b} : Mem(P, b) } \cup { P \in {b.a, b.b} : Mem(P, a) }
       IN CASE Cardinality(ps) = 0 -> NoneObj
            [] Cardinality(ps) = 1 -> MkPoint(CHOOSE P \in ps : TRUE)
            [] Cardinality(ps) = 2 -> LET P == CHOOSE P \in ps : TRUE IN MkSegment(P, CHOOSE Q \in ps : Q # P)
            [] OTHER -> [k |-> "Bug"]
  ELSE LET i == Inter11(MkLine(a.a, Dir(a)), MkLine(b.a, Dir(b)))
       IN IF i.k = "Point" /\ Mem(i.p, a) /\ Mem(i.p, b) THEN i ELSE NoneObj
\* inter_segment_halfline
SegHalfL2(s, h) ==
  IF SameSet(MkLine(s.a, Dir(s)), MkLine(h.p, h.u))
  THEN LET ps == { P \in {s.a, s.b} : Mem(P, h) } \cup { P \in {h.p} : Mem(P, s) }
       IN CASE Cardinality(ps) = 0 -> NoneObj
            [] Cardinality(ps) = 1 -> MkPoint(CHOOSE P \in ps : TRUE)
            [] Cardinality(ps) = 2 -> LET P == CHOOSE P \in ps : TRUE IN MkSegment(P, CHOOSE Q \in ps : Q # P)
            [] OTHER -> [k |-> "Bug"]
  ELSE LET i == Inter11(MkLine(s.a, Dir(s)), MkLine(h.p, h.u))
       IN IF i.k = "Point" /\ Mem(i.p, s) /\ Mem(i.p, h) THEN i ELSE NoneObj
\* inter_halfline_halfline
HalfHalfL2(a, b) ==
  IF SameSet(MkLine(a.p, a.u), MkLine(b.p, b.u))
  THEN IF Subset(a, b) THEN a ELSE IF Subset(b, a) THEN b
       ELSE LET ps == { P \in {a.p} : Mem(P, b) } \cup { P \in {b.p} : Mem(P, a) }
            IN CASE Cardinality(ps) = 0 -> NoneObj
                 [] Cardinality(ps) = 1 -> MkPoint(CHOOSE P \in ps : TRUE)
                 [] Cardinality(ps) = 2 -> LET P == CHOOSE P \in ps : TRUE IN MkSegment(P, CHOOSE Q \in ps : Q # P)
  ELSE LET i == Inter11(MkLine(a.p, a.u), MkLine(b.p, b.u))
       IN IF i.k = "Point" /\ Mem(i.p, a) /\ Mem(i.p, b) THEN i ELSE NoneObj
\* inter_line_segment / inter_line_halfline / inter_plane_segment / inter_plane_halfline: via the carrier line
ViaCarrierL2(x, y) ==      \* x: Line or Plane, y: Segment or HalfLine
  LET carrier == MkLine(Base(y), Dir(y))
      i == InterAnalytic(x, carrier)
  IN CASE i.k = "None" -> NoneObj
       [] i.k = "Line" -> y
       [] i.k = "Point" -> IF Mem(i.p, y) THEN i ELSE NoneObj
L2(a, b) == CASE a.k = "Segment" /\ b.k = "Segment" -> SegSegL2(a, b)
              [] a.k = "Segment" /\ b.k = "HalfLine" -> SegHalfL2(a, b)
              [] a.k = "HalfLine" /\ b.k = "Segment" -> SegHalfL2(b, a)
              [] a.k = "HalfLine" /\ b.k = "HalfLine" -> HalfHalfL2(a, b)
              [] a.k \in {"Line", "Plane"} /\ b.k \in {"Segment", "HalfLine"} -> ViaCarrierL2(a, b)
              [] a.k \in {"Segment", "HalfLine"} /\ b.k \in {"Line", "Plane"} -> ViaCarrierL2(b, a)
---------------------------------------------------------------------------
\* ---- handlers involving polygons and polyhedra (hash sets = sets of exact points; "Bug" = the branch that raises
\*      TypeError("Bug detected") or a constructor that would be given degenerate input)
Bug == [k |-> "Bug"]
PlaneOfPolygon(g) == MkPlane(g.cyc[1], g.n)
PolyEdges(g) == { MkSegment(g.cyc[i], g.cyc[IF i = Len(g.cyc) THEN 1 ELSE i + 1]) : i \in 1..Len(g.cyc) }
FacesOf(K) == { MkPolygon(fc.cyc, fc.n) : fc \in K.fs }
EdgesOf(K) == UNION { PolyEdges(g) : g \in FacesOf(K) }
FromPointSet(ps) == CASE Cardinality(ps) = 0 -> NoneObj
                      [] Cardinality(ps) = 1 -> MkPoint(CHOOSE P \in ps : TRUE)
                      [] Cardinality(ps) = 2 -> LET P == CHOOSE P \in ps : TRUE IN MkSegment(P, CHOOSE Q \in ps : Q # P)
                      [] OTHER -> Bug
\* the two extreme points of a collinear point set (get_segment_from_point_list)
Extremes(ps) == LET P == CHOOSE P \in ps : \E Q \in ps : \A X \in ps : Dot(HDiff(X, P), HDiff(Q, P)) >= 0 /\ Dot(HDiff(X, Q), HDiff(P, Q)) >= 0
                    Q == CHOOSE Q \in ps : \A X \in ps : Dot(HDiff(X, P), HDiff(Q, P)) >= 0 /\ Dot(HDiff(X, Q), HDiff(P, Q)) >= 0 /\ Q # P
                IN MkSegment(P, Q)
PolygonFromPoints(ps) == IF CollinearSet(ps) \/ ~CoplanarSet(ps) THEN Bug ELSE HullPolygon(ps)

\* inter_line_convexpolygon
LinePolygonL2(l, g) ==
  LET i == InterAnalytic(l, PlaneOfPolygon(g))
  IN CASE i.k = "None" -> NoneObj
       [] i.k = "Point" -> IF Mem(i.p, g) THEN i ELSE NoneObj
       [] i.k = "Line" -> LET res == { ViaCarrierL2(l, e) : e \in PolyEdges(g) }          \* intersection(segment, l) per edge
                              segs == { r \in res : r.k = "Segment" }
                          IN IF segs # {} THEN CHOOSE r \in segs : TRUE
                             ELSE FromPointSet({ r.p : r \in { r \in res : r.k = "Point" } })
\* intersection(Point or Segment, Segment / HalfLine) as used for the second step of the segment / half-line handlers
WithSeg(x, s) == CASE x.k = "None" -> NoneObj
                   [] x.k = "Point" -> IF Mem(x.p, s) THEN x ELSE NoneObj
                   [] x.k = "Segment" -> IF s.k = "Segment" THEN SegSegL2(x, s) ELSE SegHalfL2(x, s)
                   [] OTHER -> Bug
\* inter_segment_convexpolygon / inter_convexpolygon_halfline
OneDPolygonL2(s, g) ==
  LET carrier == MkLine(Base(s), Dir(s))
      i == InterAnalytic(carrier, PlaneOfPolygon(g))
  IN CASE i.k = "None" -> NoneObj
       [] i.k = "Point" -> IF Mem(i.p, s) /\ Mem(i.p, g) THEN i ELSE NoneObj
       [] i.k = "Line" -> WithSeg(LinePolygonL2(carrier, g), s)
\* inter_plane_convexpolygon
PlanePolygonL2(pl, g) ==
  LET i == InterAnalytic(pl, PlaneOfPolygon(g))
  IN CASE i.k = "None" -> NoneObj [] i.k = "Plane" -> g [] i.k = "Line" -> LinePolygonL2(i, g)
\* inter_plane_convexpolyhedron
PlanePolyhedronL2(pl, K) ==
  LET inplane == { g \in FacesOf(K) : SameSet(PlaneOfPolygon(g), pl) }
      hits == { r.p : r \in { r \in { ViaCarrierL2(pl, e) : e \in EdgesOf(K) } : r.k = "Point" } }
  IN IF inplane # {} THEN CHOOSE g \in inplane : TRUE
     ELSE IF Cardinality(hits) <= 2 THEN FromPointSet(hits) ELSE PolygonFromPoints(hits)
\* inter_line_convexpolyhedron
LinePolyhedronL2(l, K) ==
  LET res == { LinePolygonL2(l, g) : g \in FacesOf(K) }
      segs == { r \in res : r.k = "Segment" }
      pts == { r.p : r \in { r \in res : r.k = "Point" } }
  IN IF Bug \in res THEN Bug ELSE IF segs # {} THEN CHOOSE r \in segs : TRUE
     ELSE IF Cardinality(pts) <= 1 THEN FromPointSet(pts) ELSE Extremes(pts)
\* inter_segment_convexpolyhedron / inter_convexpolyhedron_halfline: boundary point hits plus the end points that are inside
OneDPolyhedronL2(s, K) ==
  LET ends == IF s.k = "Segment" THEN {s.a, s.b} ELSE {s.p}
      inside == { P \in ends : Mem(P, K) }
      hits == { r.p : r \in { r \in { OneDPolygonL2(s, g) : g \in FacesOf(K) } \cup { WithSeg(e, s) : e \in EdgesOf(K) } : r.k = "Point" } }
  IN IF s.k = "Segment" /\ inside = ends THEN s ELSE FromPointSet(hits \cup inside)
\* inter_convexpolygon_convexpolygon
PolygonPolygonL2(a, b) ==
  LET i == InterAnalytic(PlaneOfPolygon(a), PlaneOfPolygon(b))
  IN CASE i.k = "None" -> NoneObj
       [] i.k = "Line" -> LET x == LinePolygonL2(i, a)  y == LinePolygonL2(i, b)
                          IN IF x.k = "None" \/ y.k = "None" THEN NoneObj
                             ELSE IF x.k = "Point" THEN (IF Mem(x.p, y) THEN x ELSE NoneObj)
                             ELSE IF y.k = "Point" THEN (IF Mem(y.p, x) THEN y ELSE NoneObj)
                             ELSE SegSegL2(x, y)
       [] i.k = "Plane" -> LET ps == { P \in Range(a.cyc) : Mem(P, b) } \cup { P \in Range(b.cyc) : Mem(P, a) }
                                     \cup { r.p : r \in { r \in { SegSegL2(e, f) : e \in PolyEdges(a), f \in PolyEdges(b) } : r.k = "Point" } }
                           IN IF Cardinality(ps) <= 2 THEN FromPointSet(ps) ELSE PolygonFromPoints(ps)
\* inter_convexpolygon_convexPolyhedron: cut the polyhedron with the polygon's plane, then intersect the section with the polygon
PolygonPolyhedronL2(K, g) ==
  LET sec == PlanePolyhedronL2(PlaneOfPolygon(g), K)
  IN CASE sec.k = "None" -> NoneObj
       [] sec.k = "Point" -> IF Mem(sec.p, g) THEN sec ELSE NoneObj
       [] sec.k = "Segment" -> OneDPolygonL2(sec, g)
       [] sec.k = "Polygon" -> PolygonPolygonL2(sec, g)
       [] OTHER -> Bug
HasL2(a, b) == (a.k \in {"Segment", "HalfLine"} /\ b.k \in {"Segment", "HalfLine", "Line", "Plane"})
               \/ (b.k \in {"Segment", "HalfLine"} /\ a.k \in {"Line", "Plane"})
\* inter_convexpolyhedron_convexpolyhedron: every face of one body is cut by the other body; the resulting polygons (a hash
\* set in the code: equal polygons are merged) are assembled into a polyhedron by the public constructor
EdgePairs(vset) == LET c == HullPolygon(vset).cyc IN { {c[i], c[IF i = Len(c) THEN 1 ELSE i + 1]} : i \in 1..Len(c) }
ClosedFaces(polys) == \A e \in UNION { EdgePairs(p) : p \in polys } : Cardinality({ p \in polys : e \in EdgePairs(p) }) = 2
PolyhedronPolyhedronL2(K1, K2) ==
  LET all == { PolygonPolyhedronL2(K2, g) : g \in FacesOf(K1) } \cup { PolygonPolyhedronL2(K1, g) : g \in FacesOf(K2) }
      polys == { Range(r.cyc) : r \in { r \in all : r.k = "Polygon" } }
      segs  == { {r.a, r.b} : r \in { r \in all : r.k = "Segment" } }
      pts   == { r.p : r \in { r \in all : r.k = "Point" } }
  IN IF Bug \in all THEN Bug
     ELSE IF Cardinality(polys) > 1 THEN (IF ClosedFaces(polys) THEN [k |-> "Polyhedron", c |-> UNION polys] ELSE Bug)
     ELSE IF Cardinality(polys) = 1 THEN [k |-> "Polygon", c |-> CHOOSE p \in polys : TRUE]
     ELSE IF Cardinality(segs) > 1 THEN Bug
     ELSE IF Cardinality(segs) = 1 THEN [k |-> "Segment", c |-> CHOOSE x \in segs : TRUE]
     ELSE IF Cardinality(pts) > 1 THEN Bug
     ELSE IF Cardinality(pts) = 1 THEN [k |-> "Point", c |-> CHOOSE x \in pts : TRUE]
     ELSE [k |-> "None"]
L2Body(a, b) ==      \* a flat or polygon, b a polygon or polyhedron (the handlers' own argument order)
  CASE a.k = "Line" /\ b.k = "Polygon" -> LinePolygonL2(a, b)
    [] a.k \in {"Segment", "HalfLine"} /\ b.k = "Polygon" -> OneDPolygonL2(a, b)
    [] a.k = "Plane" /\ b.k = "Polygon" -> PlanePolygonL2(a, b)
    [] a.k = "Plane" /\ b.k = "Polyhedron" -> PlanePolyhedronL2(a, b)
    [] a.k = "Line" /\ b.k = "Polyhedron" -> LinePolyhedronL2(a, b)
    [] a.k \in {"Segment", "HalfLine"} /\ b.k = "Polyhedron" -> OneDPolyhedronL2(a, b)
    [] a.k = "Polygon" /\ b.k = "Polygon" -> PolygonPolygonL2(a, b)
    [] a.k = "Polygon" /\ b.k = "Polyhedron" -> PolygonPolyhedronL2(b, a)
    [] a.k = "Polyhedron" /\ b.k = "Polygon" -> PolygonPolyhedronL2(a, b)
HasL2Body(a, b) == (a.k \in {"Line", "Segment", "HalfLine", "Plane"} /\ b.k \in {"Polygon", "Polyhedron"})
                   \/ (a.k = "Polygon" /\ b.k \in {"Polygon", "Polyhedron"}) \/ (a.k = "Polyhedron" /\ b.k = "Polygon")
=============================================================================
