------------------------------- MODULE G3DAlg -------------------------------
(***************************************************************************)
(* L2: implementation-shaped models of parts of Geometry3D/calc/           *)
(* intersection.py (same case order, same sub-calls, exact arithmetic,     *)
(* hash sets modelled as sets of exact points).  TLC checks  L2 refines L1 *)
(* (MC_Alg2); the recorder logs which handler really ran and the trace     *)
(* specification checks it against Dispatch.                               *)
(***************************************************************************)
EXTENDS G3DInter

\* ---- the dispatcher: 49 ordered pairs -> one of 28 handlers, called with the operands in the handler's own order
HRank == [Point |-> 0, Line |-> 1, Plane |-> 2, Segment |-> 3, Polygon |-> 4, Polyhedron |-> 5, HalfLine |-> 6]
LibName == [Point |-> "point", Line |-> "line", Plane |-> "plane", Segment |-> "segment", Polygon |-> "convexpolygon",
            Polyhedron |-> "convexpolyhedron", HalfLine |-> "halfline"]
Geo7k == {"Point", "Line", "Plane", "Segment", "HalfLine", "Polygon", "Polyhedron"}
\* handler name as in the source (inter_<x>_<y>), lower-cased
Handler(ka, kb) == LET lo == IF HRank[ka] <= HRank[kb] THEN ka ELSE kb
                       hi == IF HRank[ka] <= HRank[kb] THEN kb ELSE ka
                   IN "inter_" \o LibName[lo] \o "_" \o LibName[hi]
Handlers == { Handler(ka, kb) : ka \in Geo7k, kb \in Geo7k }
DispatchTotal     == Cardinality(Handlers) = 28
DispatchSymmetric == \A ka \in Geo7k, kb \in Geo7k : Handler(ka, kb) = Handler(kb, ka)

\* ---- the collinear handlers: the result is assembled from the endpoints that lie in the other operand
\* inter_segment_segment
SegSegL2(a, b) ==
  IF SameSet(MkLine(a.a, Dir(a)), MkLine(b.a, Dir(b)))
  THEN LET ps == { P \in {a.a, a.b} : Mem(P, b) } \cup { P \in {b.a, b.b} : Mem(P, a) }
       IN CASE Cardinality(ps) = 0 -> NoneObj
            [] Cardinality(ps) = 1 -> MkPoint(CHOOSE P \in ps : TRUE)
            [] Cardinality(ps) = 2 -> LET P == CHOOSE P \in ps : TRUE IN MkSegment(P, CHOOSE Q \in ps : Q # P)
            [] OTHER -> [k |-> "Bug"]
  ELSE LET i == Inter11(MkLine(a.a, Dir(a)), MkLine(b.a, Dir(b)))
       IN IF i.k = "Point" /\ Mem(i.p, a) /\ Mem(i.p, b) THEN i ELSE NoneObj
\* inter_segment_halfline
SegHalfL2(s, h) ==
  IF SameSet(MkLine(s.a, Dir(s)), MkLine(h.p, h.u))
  THEN LET ps == { P \in {s.a, s.b} : Mem(P, h) } \cup { P \in {h.p} : Mem(P, s) }
       IN CASE Cardinality(ps) = 0 -> NoneObj
            [] Cardinality(ps) = 1 -> MkPoint(CHOOSE P \in ps : TRUE)
            [] Cardinality(ps) = 2 -> LET P == CHOOSE P \in ps : TRUE IN MkSegment(P, CHOOSE Q \in ps : Q # P)
            [] OTHER -> [k |-> "Bug"]
  ELSE LET i == Inter11(MkLine(s.a, Dir(s)), MkLine(h.p, h.u))
       IN IF i.k = "Point" /\ Mem(i.p, s) /\ Mem(i.p, h) THEN i ELSE NoneObj
\* inter_halfline_halfline
HalfHalfL2(a, b) ==
  IF SameSet(MkLine(a.p, a.u), MkLine(b.p, b.u))
  THEN IF Subset(a, b) THEN a ELSE IF Subset(b, a) THEN b
       ELSE LET ps == { P \in {a.p} : Mem(P, b) } \cup { P \in {b.p} : Mem(P, a) }
            IN CASE Cardinality(ps) = 0 -> NoneObj
                 [] Cardinality(ps) = 1 -> MkPoint(CHOOSE P \in ps : TRUE)
                 [] Cardinality(ps) = 2 -> LET P == CHOOSE P \in ps : TRUE IN MkSegment(P, CHOOSE Q \in ps : Q # P)
  ELSE LET i == Inter11(MkLine(a.p, a.u), MkLine(b.p, b.u))
       IN IF i.k = "Point" /\ Mem(i.p, a) /\ Mem(i.p, b) THEN i ELSE NoneObj
\* inter_line_segment / inter_line_halfline / inter_plane_segment / inter_plane_halfline: via the carrier line
ViaCarrierL2(x, y) ==      \* x: Line or Plane, y: Segment or HalfLine
  LET carrier == MkLine(Base(y), Dir(y))
      i == InterAnalytic(x, carrier)
  IN CASE i.k = "None" -> NoneObj
       [] i.k = "Line" -> y
       [] i.k = "Point" -> IF Mem(i.p, y) THEN i ELSE NoneObj
L2(a, b) == CASE a.k = "Segment" /\ b.k = "Segment" -> SegSegL2(a, b)
              [] a.k = "Segment" /\ b.k = "HalfLine" -> SegHalfL2(a, b)
              [] a.k = "HalfLine" /\ b.k = "Segment" -> SegHalfL2(b, a)
              [] a.k = "HalfLine" /\ b.k = "HalfLine" -> HalfHalfL2(a, b)
              [] a.k \in {"Line", "Plane"} /\ b.k \in {"Segment", "HalfLine"} -> ViaCarrierL2(a, b)
              [] a.k \in {"Segment", "HalfLine"} /\ b.k \in {"Line", "Plane"} -> ViaCarrierL2(b, a)
HasL2(a, b) == (a.k \in {"Segment", "HalfLine"} /\ b.k \in {"Segment", "HalfLine", "Line", "Plane"})
               \/ (b.k \in {"Segment", "HalfLine"} /\ a.k \in {"Line", "Plane"})
=============================================================================
