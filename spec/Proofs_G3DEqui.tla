--------------------------- MODULE Proofs_G3DEqui ---------------------------
(***************************************************************************)
(* TLAPS: the algebra behind C13 / C07 / C06 for ALL integer coordinates:  *)
(* the side of a point with respect to an oriented plane is invariant      *)
(* under a common translation and keeps its sign under positive scaling    *)
(* (membership and intersection commute with them), oriented volumes are   *)
(* translation invariant and scale with k^3, cross products (areas) with   *)
(* k^2 and squared lengths with k^2 -- the facts that TransEquiv /         *)
(* MeasureInv / EqInter / EqMeas check by enumeration on the models.       *)
(* Stated on scalars so that the SMT back end sees pure integer arithmetic.*)
(***************************************************************************)
EXTENDS Integers, TLAPS

Dot3(a1, a2, a3, b1, b2, b3) == a1 * b1 + a2 * b2 + a3 * b3
Side(n1, n2, n3, d, p1, p2, p3) == Dot3(n1, n2, n3, p1, p2, p3) - d
C1(a1, a2, a3, b1, b2, b3) == a2 * b3 - a3 * b2
C2(a1, a2, a3, b1, b2, b3) == a3 * b1 - a1 * b3
C3(a1, a2, a3, b1, b2, b3) == a1 * b2 - a2 * b1
Det(a1, a2, a3, b1, b2, b3, c1, c2, c3) == Dot3(a1, a2, a3, C1(b1, b2, b3, c1, c2, c3), C2(b1, b2, b3, c1, c2, c3), C3(b1, b2, b3, c1, c2, c3))

\* translating the plane (offset d + n.v) and the point (p + v) together leaves the side unchanged
THEOREM SideTranslates ==
  \A n1, n2, n3, d, p1, p2, p3, v1, v2, v3 \in Int :
     Side(n1, n2, n3, d + Dot3(n1, n2, n3, v1, v2, v3), p1 + v1, p2 + v2, p3 + v3) = Side(n1, n2, n3, d, p1, p2, p3)
  BY Z3 DEF Side, Dot3

\* scaling the point and the offset by k multiplies the side by k (same sign for k > 0)
THEOREM SideScales ==
  \A n1, n2, n3, d, p1, p2, p3, k \in Int :
     Side(n1, n2, n3, k * d, k * p1, k * p2, k * p3) = k * Side(n1, n2, n3, d, p1, p2, p3)
  BY Z3 DEF Side, Dot3

\* oriented volume of the tetrahedron (o, a, b, c): translation invariant ...
THEOREM DetTranslates ==
  \A o1, o2, o3, a1, a2, a3, b1, b2, b3, c1, c2, c3, v1, v2, v3 \in Int :
     Det((a1 + v1) - (o1 + v1), (a2 + v2) - (o2 + v2), (a3 + v3) - (o3 + v3),
         (b1 + v1) - (o1 + v1), (b2 + v2) - (o2 + v2), (b3 + v3) - (o3 + v3),
         (c1 + v1) - (o1 + v1), (c2 + v2) - (o2 + v2), (c3 + v3) - (o3 + v3))
     = Det(a1 - o1, a2 - o2, a3 - o3, b1 - o1, b2 - o2, b3 - o3, c1 - o1, c2 - o2, c3 - o3)
  BY Z3 DEF Det, Dot3, C1, C2, C3

\* ... and homogeneous of degree 3
THEOREM DetScales ==
  \A a1, a2, a3, b1, b2, b3, c1, c2, c3, k \in Int :
     Det(k * a1, k * a2, k * a3, k * b1, k * b2, k * b3, k * c1, k * c2, k * c3) = k * k * k * Det(a1, a2, a3, b1, b2, b3, c1, c2, c3)
  BY Z3 DEF Det, Dot3, C1, C2, C3

\* cross products (twice the oriented area) are homogeneous of degree 2, squared lengths as well
THEOREM CrossScales1 ==
  \A a1, a2, a3, b1, b2, b3, k \in Int : C1(k * a1, k * a2, k * a3, k * b1, k * b2, k * b3) = k * k * C1(a1, a2, a3, b1, b2, b3)
  BY Z3 DEF C1
THEOREM CrossScales2 ==
  \A a1, a2, a3, b1, b2, b3, k \in Int : C2(k * a1, k * a2, k * a3, k * b1, k * b2, k * b3) = k * k * C2(a1, a2, a3, b1, b2, b3)
  BY Z3 DEF C2
THEOREM CrossScales3 ==
  \A a1, a2, a3, b1, b2, b3, k \in Int : C3(k * a1, k * a2, k * a3, k * b1, k * b2, k * b3) = k * k * C3(a1, a2, a3, b1, b2, b3)
  BY Z3 DEF C3
THEOREM Norm2Scales ==
  \A a1, a2, a3, k \in Int : Dot3(k * a1, k * a2, k * a3, k * a1, k * a2, k * a3) = k * k * Dot3(a1, a2, a3, a1, a2, a3)
  BY Z3 DEF Dot3

\* a coordinate permutation with sign changes (here: swap of the first two axes, reflection of the third) preserves dot products,
\* hence sides, angles and lengths; the determinant changes by the sign of the transformation
THEOREM SignedPermutation ==
  \A a1, a2, a3, b1, b2, b3, c1, c2, c3 \in Int :
     /\ Dot3(a2, a1, -a3, b2, b1, -b3) = Dot3(a1, a2, a3, b1, b2, b3)
     /\ Det(a2, a1, -a3, b2, b1, -b3, c2, c1, -c3) = Det(a1, a2, a3, b1, b2, b3, c1, c2, c3)
  BY Z3 DEF Det, Dot3, C1, C2, C3
=============================================================================
