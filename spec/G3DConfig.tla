------------------------------ MODULE G3DConfig ------------------------------
(***************************************************************************)
(* The global tolerance configuration as a state machine (C19).            *)
(*   eps = mant * 10^(-exp)   (mant in {1, 2, 5}: non-power-of-ten values  *)
(*   enter only through round(-log10 eps)),   sig = significant figures.   *)
(* Actions: SetEps, SetSig, ResetEps, ResetSig (the argument-less calls).  *)
(* Comparisons are parameterised by a symbolic perturbation delta:         *)
(*   Tiny = eps/1000, Small = eps/100 (same object), Big = 4*eps (a        *)
(*   different Point / Vector), all relative to the *current* eps.         *)
(***************************************************************************)
EXTENDS Integers, Sequences

CONSTANTS Exps,       \* exponents that may be set: eps ranges over mant * 10^-e, e \in Exps
          Mants,      \* mantissas {1} or {1, 2, 5}
          MaxLen
VARIABLES cfg, calls
cvars == <<cfg, calls>>

Default == [mant |-> 1, exp |-> 10, sig |-> 10]
\* round(-log10(m * 10^-e)) = round(e - log10 m):  log10 2 = 0.301.., log10 5 = 0.698..
RoundNegLog10(m, e) == IF m = 5 THEN e - 1 ELSE e
CfgInit == cfg = Default /\ calls = <<>>
SetEps(m, e)  == cfg' = [mant |-> m, exp |-> e, sig |-> RoundNegLog10(m, e)] /\ calls' = Append(calls, [f |-> "set_eps", mant |-> m, exp |-> e])
SetSig(n)     == cfg' = [mant |-> 1, exp |-> n, sig |-> n] /\ calls' = Append(calls, [f |-> "set_sig_figures", n |-> n])
ResetEps      == cfg' = Default /\ calls' = Append(calls, [f |-> "set_eps_default"])
ResetSig      == cfg' = Default /\ calls' = Append(calls, [f |-> "set_sig_figures_default"])
CfgNext == /\ Len(calls) < MaxLen
           /\ \/ \E m \in Mants, e \in Exps : SetEps(m, e)
              \/ \E n \in Exps : SetSig(n)
              \/ ResetEps \/ ResetSig
CfgSpec == CfgInit /\ [][CfgNext]_cvars

CfgInv   == cfg.sig = RoundNegLog10(cfg.mant, cfg.exp)
CfgTyped == cfg.mant \in {1, 2, 5} /\ cfg.exp \in Exps \cup {10} /\ cfg.sig \in Int
\* for power-of-ten settings eps = 10^-sig
PowTen   == cfg.mant = 1 => cfg.sig = cfg.exp
\* the configuration is a function of the last call only ("restoring the previous eps restores the previous behaviour")
LastCallDecides == [][\A c \in {calls'[Len(calls')]} :
                        cfg' = CASE c.f = "set_eps" -> [mant |-> c.mant, exp |-> c.exp, sig |-> RoundNegLog10(c.mant, c.exp)]
                                 [] c.f = "set_sig_figures" -> [mant |-> 1, exp |-> c.n, sig |-> c.n]
                                 [] OTHER -> Default]_cvars

\* symbolic perturbations
Deltas == {"Tiny", "Small", "Big"}
SameTol(d) == d \in {"Tiny", "Small"}
==============================================================================
