---------------------------- MODULE G3DTransform ----------------------------
(***************************************************************************)
(* Lattice similarities  T(x) = k * S * x + t  with S a signed axis        *)
(* permutation, k a positive integer and t an integer vector (C13), and    *)
(* their action on objects and on query results.                           *)
(***************************************************************************)
EXTENDS G3DBodies, G3DRel

Perms3 == { <<1, 2, 3>>, <<1, 3, 2>>, <<2, 1, 3>>, <<2, 3, 1>>, <<3, 1, 2>>, <<3, 2, 1>> }
Signs3 == { <<s1, s2, s3>> : s1 \in {1, -1}, s2 \in {1, -1}, s3 \in {1, -1} }
MkT(perm, sg, k, t) == [perm |-> perm, sg |-> sg, k |-> k, t |-> t]
Lin(T, v)  == <<T.sg[1] * v[T.perm[1]], T.sg[2] * v[T.perm[2]], T.sg[3] * v[T.perm[3]]>>
TPoint(T, P) == LET v == Lin(T, XYZ(P)) IN HP(T.k * v[1] + T.t[1] * P[4], T.k * v[2] + T.t[2] * P[4], T.k * v[3] + T.t[3] * P[4], P[4])
\* determinant of the signed permutation (orientation)
PermSign(p) == IF p \in { <<1, 2, 3>>, <<2, 3, 1>>, <<3, 1, 2>> } THEN 1 ELSE -1
DetT(T) == PermSign(T.perm) * T.sg[1] * T.sg[2] * T.sg[3]
TSet(T, S) == { TPoint(T, P) : P \in S }
Transform(T, o) ==
  CASE o.k = "None"     -> o
    [] o.k = "Point"    -> MkPoint(TPoint(T, o.p))
    [] o.k = "Vector"   -> MkVector(Scale(T.k, Lin(T, o.v)))
    [] o.k = "Line"     -> MkLine(TPoint(T, o.p), Lin(T, o.u))
    [] o.k = "HalfLine" -> MkHalfLine(TPoint(T, o.p), Lin(T, o.u))
    [] o.k = "Segment"  -> MkSegment(TPoint(T, o.a), TPoint(T, o.b))
    [] o.k = "Plane"    -> MkPlane(TPoint(T, o.p), Lin(T, o.n))
    \* a reflection reverses the sense of a cycle: the image is counter-clockwise about  det * Lin(n)
    [] o.k = "Polygon"  -> PolygonFrom(TSet(T, Range(o.cyc)), Scale(DetT(T), Lin(T, o.n)))
    [] o.k = "Polyhedron" -> HullBody(TSet(T, o.vs))
=============================================================================
