------------------------------ MODULE G3DCtor ------------------------------
(***************************************************************************)
(* Construction of polygons and polyhedra from unordered / repeated /      *)
(* arbitrarily oriented input (C09, C06), and negation.                    *)
(*  L1: MakePolygon(seq), MakePolyhedron(faces) -- what the result must be *)
(*  L2: PolyCtorL2, FlipL2 -- what the library's constructors do (dedupe   *)
(*      keeping first occurrences, normal from the first three points,     *)
(*      faces flipped when they look towards the centroid).                *)
(***************************************************************************)
EXTENDS G3DBodies, G3DMeasure

\* ---- permutations used to present the input in "any order"
ApplyPerm(seq, perm) == [i \in 1..Len(seq) |-> seq[perm[i]]]
AllPerms(n)    == { p \in [1..n -> 1..n] : \A i, j \in 1..n : p[i] = p[j] => i = j }
AffinePerms(n) == { [i \in 1..n |-> ((a * (i - 1) + b) % n) + 1] : a \in { a \in 1..(n - 1) : GCD(a, n) = 1 }, b \in 0..(n - 1) }
PermsFor(n)    == IF n <= 5 THEN AllPerms(n) ELSE AffinePerms(n) \cup { [i \in 1..n |-> n + 1 - i] }
\* duplication modes: 0 none, 1 first element repeated at the end, 2 last element repeated at position 2,
\*                    3 first element twice in a row, 4 first element repeated at position 3 (repeats among the first three entries)
WithDup(seq, mode) == CASE mode = 0 -> seq
                        [] mode = 1 -> Append(seq, seq[1])
                        [] mode = 2 -> <<seq[1], seq[Len(seq)]>> \o Tail(seq)
                        [] mode = 3 -> <<seq[1]>> \o seq
                        [] mode = 4 -> <<seq[1], seq[2], seq[1]>> \o Tail(Tail(seq))

\* ---- L1
RECURSIVE Dedupe(_)
Dedupe(seq) == IF seq = <<>> THEN <<>>
               ELSE LET rest == Dedupe([i \in 1..(Len(seq) - 1) |-> seq[i]])   x == seq[Len(seq)]
                    IN IF x \in Range(rest) THEN rest ELSE Append(rest, x)
\* the polygon denoted by a vertex list: distinct vertices, ccw about the normal of the first three distinct points
MakePolygon(seq) == LET d == Dedupe(seq)
                        n == Prim(Cross(HDiff(d[2], d[1]), HDiff(d[3], d[1])))
                    IN MkPolygon(CCWCycle(Range(d), n), n)
NegPolygon(p) == MkPolygon(CCWCycle(Range(p.cyc), Neg(p.n)), Neg(p.n))
ValidPolygonInput(seq) == LET d == Dedupe(seq) IN Len(d) >= 3 /\ ~CollinearSet(Range(d)) /\ CoplanarSet(Range(d))

\* a face presented with its cycle possibly reversed (normal pointing inward)
FaceInput(f, rev) == IF rev THEN [i \in 1..Len(f.cyc) |-> f.cyc[Len(f.cyc) + 1 - i]] ELSE f.cyc
\* L2: the library flips a face when (face point - centroid) . normal < 0, centroid = mean of the vertices.
\*     |V| * (p - centroid) = |V| p - sum(V), evaluated on lattice vertices.
SumPts(V) == LET q == SetToSeq(V) IN <<SumSeq([i \in 1..Len(q) |-> q[i][1]]), SumSeq([i \in 1..Len(q) |-> q[i][2]]), SumSeq([i \in 1..Len(q) |-> q[i][3]])>>
LooksInward(cyc, V) == LET n == Cross(HDiff(cyc[2], cyc[1]), HDiff(cyc[3], cyc[1]))
                           w == Sub(Scale(Cardinality(V), XYZ(cyc[1])), SumPts(V))       \* lattice vertices (w = 1)
                       IN Dot(w, n) < 0
\* after the L2 flip every face normal is the outward one
FlipL2OK(body, revs) == \A f \in body.fs :
                          LET c  == FaceInput(f, f \in revs)
                              n0 == Cross(HDiff(c[2], c[1]), HDiff(c[3], c[1]))
                              n1 == IF LooksInward(c, body.vs) THEN Neg(n0) ELSE n0
                          IN Prim(n1) = f.n
\* the centroid of the vertices is strictly inside
CentroidInside(body) == \A f \in body.fs : Dot(f.n, SumPts(body.vs)) < f.d * Cardinality(body.vs)
=============================================================================
