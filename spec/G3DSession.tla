----------------------------- MODULE G3DSession -----------------------------
(***************************************************************************)
(* The library's mutable state as a state machine (DESIGN 4.3).            *)
(*                                                                         *)
(*   heap  : the exact value every live object denotes now                 *)
(*   orig  : its value at creation          disp : accumulated translation *)
(*   args  : the Points that were passed to constructors (shared inputs)   *)
(*   ncopy : how many deep copies of each object travel along with it      *)
(*   hist  : the calls made so far (history variable, hidden by a VIEW in  *)
(*           the model-checking configurations, kept in the generating     *)
(*           configurations so that every history is enumerated once)      *)
(*                                                                         *)
(* Actions are public calls; the linearisation point is the call's return. *)
(*   Move(i, v)      obj.move(Vector v): translates the object in place    *)
(*   Copy(i)         copy.deepcopy(obj): one more representative           *)
(*   Obs(i)          run the query battery on obj (no state change)        *)
(*   Query(op,i,j)   a pure query on two live objects (no state change)    *)
(*   NegObj(i), MoveKeep(i, v)  derive a new live object from a live object   *)
(*   Mutate(k, v)    move / assign a Point that was a constructor argument *)
(*                   (the objects built from it own their data: no change) *)
(***************************************************************************)
EXTENDS G3DBodies, G3DRel, TLC

CONSTANTS ObjChoices,  \* set of object sequences: the objects created at the start of a session
          ArgPts,      \* sequence of lattice points that were constructor arguments (may be <<>>)
          MoveVecs,    \* translation vectors for Move / Mutate
          Alphabet,    \* subset of {"Move", "Copy", "Obs", "Query", "Mutate"}
          QueryOps,    \* subset of the query names below
          MaxDepth,
          Probes       \* sequence of static probe objects used by the battery
VARIABLES heap, orig, disp, args, ncopy, hist
vars == <<heap, orig, disp, args, ncopy, hist>>
Ids  == DOMAIN heap

Init == /\ heap \in ObjChoices /\ orig = heap /\ disp = [i \in DOMAIN heap |-> Zero3]
        /\ args = ArgPts /\ ncopy = [i \in DOMAIN heap |-> 0] /\ hist = <<>>

Step(e) == hist' = Append(hist, e)
\* translations that are special for the object itself: a segment moved by its own span (an end point lands on the other one), a
\* polygon moved along one of its edges, a line / half-line along its direction, a plane along its normal
SelfVecs(o) == CASE o.k = "Segment" -> {HDiff(o.a, o.b), HDiff(o.b, o.a)}
                 [] o.k \in {"Line", "HalfLine"} -> {o.u}
                 [] o.k = "Plane" -> {o.n}
                 [] o.k = "Polygon" -> {HDiff(o.cyc[2], o.cyc[1])}
                 [] OTHER -> {}

\* a new object enters the session (used by the trace specification; the generating configurations start from ObjChoices)
Create(o)  == /\ heap' = Append(heap, o) /\ orig' = Append(orig, o) /\ disp' = Append(disp, Zero3) /\ ncopy' = Append(ncopy, 0)
              /\ UNCHANGED args /\ Step([act |-> "Create", id |-> Len(heap) + 1])
Move(i, v) == /\ heap' = [heap EXCEPT ![i] = Translate(@, v)]
              /\ disp' = [disp EXCEPT ![i] = Add(@, v)]
              /\ UNCHANGED <<orig, args, ncopy>>
              /\ Step([act |-> "Move", id |-> i, v |-> v, post |-> Translate(heap[i], v)])
\* objects derived from live objects enter the heap as new, independent objects (at most two per session):
\*   NegObj(i)       -polygon: the same point set with the opposite orientation
\*   MoveKeep(i, v)  obj.move(v) whose RETURN VALUE is kept: the receiver moves in place, the returned object is a new object at the same place
NegOf(p)   == MkPolygon(CCWCycle(Range(p.cyc), Neg(p.n)), Neg(p.n))
NDerived   == Cardinality({ n \in DOMAIN hist : hist[n].act \in {"Neg", "MoveKeep"} })
Grow(o)    == /\ orig' = Append(orig, o) /\ disp' = Append(disp, Zero3) /\ ncopy' = Append(ncopy, 0) /\ UNCHANGED args
NegObj(i)  == /\ heap[i].k = "Polygon" /\ NDerived < 2
              /\ heap' = Append(heap, NegOf(heap[i])) /\ Grow(NegOf(heap[i]))
              /\ Step([act |-> "Neg", id |-> i, val |-> NegOf(heap[i])])
\* (Line.move and Plane.move return Line(self.sv, self.dv) / Plane(self.p, self.n), which share the receiver's support vector / point:
\*  Plane and a Line built from Vectors are not among the owning types of C20, so independence is claimed for the owning kinds only)
Owners == {"Point", "Segment", "HalfLine", "Polygon", "Polyhedron"}
MoveKeep(i, v) == /\ NDerived < 2 /\ heap[i].k \in Owners
                  /\ heap' = Append([heap EXCEPT ![i] = Translate(@, v)], Translate(heap[i], v))
                  /\ orig' = Append(orig, Translate(heap[i], v)) /\ disp' = Append([disp EXCEPT ![i] = Add(@, v)], Zero3)
                  /\ ncopy' = Append(ncopy, 0) /\ UNCHANGED args
                  /\ Step([act |-> "MoveKeep", id |-> i, v |-> v, post |-> Translate(heap[i], v)])
Copy(i)    == /\ ncopy' = [ncopy EXCEPT ![i] = @ + 1] /\ UNCHANGED <<heap, orig, disp, args>>
              /\ Step([act |-> "Copy", id |-> i, val |-> heap[i]])
Obs(i)     == UNCHANGED <<heap, orig, disp, args, ncopy>> /\ Step([act |-> "Obs", id |-> i])

\* ---- pure queries and their exact answers
QuerySupported(op, a, b) ==
  CASE op = "intersection" -> TRUE
    [] op = "in"           -> \/ a.k = "Point" /\ b.k # "Point"
                              \/ a.k = "Segment" /\ b.k \in {"Line", "HalfLine", "Segment", "Plane", "Polygon", "Polyhedron"}
                              \/ a.k = "HalfLine" /\ b.k \in {"Line", "HalfLine", "Plane"}
                              \/ a.k = "Line" /\ b.k = "Plane"
                              \/ a.k = "Polygon" /\ b.k \in {"Plane", "Polyhedron"}
    [] op = "distance"     -> DistSupported(a, b)
    [] op \in {"angle", "parallel", "orthogonal"} -> RelSupported(a, b)
    [] op = "eq"           -> TRUE
    [] op = "measure"      -> a.k \in {"Segment", "Polygon", "Polyhedron"}
    [] op \in {"hash", "repr"} -> TRUE
Answer(op, a, b) ==
  CASE op = "intersection" -> [k |-> "Obj", o |-> Inter(a, b)]
    [] op = "in"           -> [k |-> "Bool", b |-> Subset(a, b)]
    [] op = "distance"     -> [k |-> "Dist2", q |-> Dist2(a, b)]
    [] op = "angle"        -> [k |-> "Angle", a |-> AngleSpec(a, b)]
    [] op = "parallel"     -> [k |-> "Bool", b |-> ParallelRel(a, b)]
    [] op = "orthogonal"   -> [k |-> "Bool", b |-> OrthRel(a, b)]
    [] op = "eq"           -> [k |-> "Bool", b |-> SameSet(a, b)]
    [] op = "measure"      -> [k |-> "Measures", m |-> Measures(a)]
    [] op \in {"hash", "repr"} -> [k |-> "Any"]
UnaryOps == {"measure", "hash", "repr"}
Query(op, i, j) == /\ QuerySupported(op, heap[i], heap[j]) /\ (op \in UnaryOps => i = j)
                   /\ UNCHANGED <<heap, orig, disp, args, ncopy>>
                   \* the exact answer is computed from the recorded operand values when the history is emitted
                   \* (WithAnswers): simulation evaluates every enabled successor, so actions must stay cheap
                   /\ Step([act |-> "Query", op |-> op, i |-> i, j |-> j, a |-> heap[i], b |-> heap[j]])
\* the shared argument k is moved in place: nothing that was built from it changes (ownership)
Mutate(k, v) == /\ args' = [args EXCEPT ![k] = Add(@, v)] /\ UNCHANGED <<heap, orig, disp, ncopy>>
                /\ Step([act |-> "Mutate", k |-> k, v |-> v])

Next == /\ Len(hist) < MaxDepth
        /\ \/ "Move" \in Alphabet /\ \E i \in Ids : \E v \in MoveVecs \cup SelfVecs(heap[i]) : Move(i, v)
           \/ "Copy" \in Alphabet /\ \E i \in Ids : ncopy[i] < 1 /\ Copy(i)
           \/ "Neg" \in Alphabet /\ \E i \in Ids : NegObj(i)
           \/ "MoveKeep" \in Alphabet /\ \E i \in Ids, v \in MoveVecs : MoveKeep(i, v)
           \/ "Obs" \in Alphabet /\ \E i \in Ids : (IF hist = <<>> THEN TRUE ELSE hist[Len(hist)].act # "Obs") /\ Obs(i)
           \/ "Query" \in Alphabet /\ \E op \in QueryOps, i \in Ids, j \in Ids : Query(op, i, j)
           \/ "Mutate" \in Alphabet /\ \E k \in DOMAIN args, v \in MoveVecs : Mutate(k, v)
WithAnswers(h) == [n \in 1..Len(h) |-> IF h[n].act = "Query"
                                          THEN [act |-> "Query", op |-> h[n].op, i |-> h[n].i, j |-> h[n].j, exp |-> Answer(h[n].op, h[n].a, h[n].b)]
                                          ELSE h[n]]
Spec == Init /\ [][Next]_vars
\* Random walks for `tlc -simulate`: TLC evaluates every enabled successor before choosing one, so the operands are
\* drawn with RandomElement first and only the handful of actions on them is offered (not a BFS relation).
NextSim == /\ Len(hist) < MaxDepth
           /\ LET i == RandomElement(Ids)  j == RandomElement(Ids)  v == RandomElement(MoveVecs)
              IN \/ "Move" \in Alphabet /\ Move(i, RandomElement(MoveVecs \cup SelfVecs(heap[i])))
                 \/ "Copy" \in Alphabet /\ ncopy[i] < 1 /\ Copy(i)
                 \/ "Neg" \in Alphabet /\ NegObj(i)
                 \/ "MoveKeep" \in Alphabet /\ MoveKeep(i, v)
                 \/ "Obs" \in Alphabet /\ Obs(i)
                 \/ "Query" \in Alphabet /\ \E op \in QueryOps : Query(op, i, j)
                 \/ "Mutate" \in Alphabet /\ DOMAIN args # {} /\ Mutate(RandomElement(DOMAIN args), v)
SpecSim == Init /\ [][NextSim]_vars
View == <<heap, disp, args, ncopy>>          \* hides the history in the model-checking configurations

---------------------------------------------------------------------------
\* Properties of the machine (C07, C20)
DispInv    == \A i \in Ids : heap[i] = Translate(orig[i], disp[i])
MeasureInv == \A i \in Ids : Measures(heap[i]) = Measures(orig[i])
BackInv    == \A i \in Ids : disp[i] = Zero3 => SameSet(heap[i], orig[i])
ValidInv   == \A i \in Ids : ValidObj(heap[i])
KindInv    == \A i \in Ids : heap[i].k = orig[i].k
\* queries are pure, argument mutation leaves every composite alone
IsPure(e)  == e.act \in {"Query", "Obs", "Copy", "Mutate"}
QueryPure  == [][(hist' # hist /\ IsPure(hist'[Len(hist')])) => heap' = heap]_vars
\* translation commutes with the queries (C07 "same answer as a freshly constructed object", C13)
TransEquiv == \A i \in Ids, j \in Ids :
                (disp[i] = disp[j]) =>
                   /\ SameSet(Inter(heap[i], heap[j]), Translate(Inter(orig[i], orig[j]), disp[i]))
                   /\ (DistSupported(heap[i], heap[j]) => Dist2(heap[i], heap[j]) = Dist2(orig[i], orig[j]))

---------------------------------------------------------------------------
\* The query battery whose exact answers accompany every emitted state
Mid2(S) == { HMid(P, Q) : P \in S, Q \in S }
ProbePoints(x, o) ==
  LET gx == GenPoints(x)  go == GenPoints(o)
      dirs == IF x.k \in {"Line", "HalfLine"} THEN {x.u, Neg(x.u)} ELSE IF x.k = "Plane" THEN {Perp1(x.n), x.n} ELSE {}
      few(S) == IF Cardinality(S) <= 4 THEN S ELSE { SetToSeq(S)[i] : i \in 1..4 }
  IN gx \cup go \cup Mid2(few(gx)) \cup { HTrans(P, d) : P \in few(gx), d \in dirs } \cup { HTrans(P, <<0, 0, 1>>) : P \in few(gx) }
Battery(x, o) ==
  [mem   |-> IF x.k = "Point" THEN <<>> ELSE LET ps == SetToSeq(ProbePoints(x, o)) IN [n \in 1..Len(ps) |-> [p |-> ps[n], e |-> Mem(ps[n], x)]],
   inter |-> [n \in 1..Len(Probes) |-> [e |-> Inter(x, Probes[n])]],
   dist  |-> [n \in 1..Len(Probes) |-> IF DistSupported(x, Probes[n]) THEN [ok |-> TRUE, q |-> Dist2(x, Probes[n])] ELSE [ok |-> FALSE, q |-> <<0, 1>>]],
   rel   |-> [n \in 1..Len(Probes) |-> IF RelSupported(x, Probes[n])
                                       THEN [ok |-> TRUE, ang |-> AngleSpec(x, Probes[n]), par |-> ParallelRel(x, Probes[n]), orth |-> OrthRel(x, Probes[n])]
                                       ELSE [ok |-> FALSE, ang |-> [fn |-> "-", q |-> <<0, 1>>], par |-> FALSE, orth |-> FALSE]],
   meas  |-> Measures(x),
   eqorig |-> SameSet(x, o)]
=============================================================================
