------------------------------- MODULE G3DVis -------------------------------
(***************************************************************************)
(* The visualizer's scene as a state machine (Geometry3D/visualization/    *)
(* base_visualizer.py).  A scene is three SETS of styled primitives; the   *)
(* only action is add((obj, colour, size), normal_length), which           *)
(*   - puts a Point, a Segment or an Arrow into its set as it is,          *)
(*   - decomposes a ConvexPolygon into its vertices and edges (and, when   *)
(*     normal_length > 0, one arrow from the vertex centroid along the     *)
(*     oriented plane normal),                                             *)
(*   - decomposes a ConvexPolyhedron into its faces, passing the normal    *)
(*     length on, and                                                      *)
(*   - rejects anything else with ValueError, leaving the scene alone.     *)
(* The sets are hash sets keyed by (primitive, colour, size): an edge      *)
(* shared by two faces is traversed in opposite directions and must be     *)
(* stored once (direction-independent Segment equality and hash, C08), a   *)
(* vertex shared by several faces once, and the same primitive in another  *)
(* style is another entry.  Primitives are canonical here: a point is its  *)
(* normalised homogeneous tuple, an edge the set of its two end points.    *)
(***************************************************************************)
EXTENDS G3DBodies, TLC

CONSTANTS Items,    \* sequence of things offered to add(): objects of every kind, and arrows [k |-> "Arrow", c, n, len]
          Styles,   \* style identifiers (a colour and a size each)
          NLens,    \* normal lengths (naturals, 0 = no arrows)
          MaxAdds
VARIABLES pts, segs, arrs, hist
vvars == <<pts, segs, arrs, hist>>

Accepted == {"Point", "Segment", "Arrow", "Polygon", "Polyhedron"}
EdgesOfCyc(cyc) == { {cyc[i], cyc[IF i = Len(cyc) THEN 1 ELSE i + 1]} : i \in 1..Len(cyc) }
SumH(V) == LET q == SetToSeq(V) IN <<SumSeq([i \in 1..Len(q) |-> q[i][1]]), SumSeq([i \in 1..Len(q) |-> q[i][2]]), SumSeq([i \in 1..Len(q) |-> q[i][3]])>>
\* centre of a polygon as the library computes it: the mean of its vertices (lattice vertices: w = 1)
Centroid(V) == LET s == SumH(V) IN HP(s[1], s[2], s[3], Cardinality(V))
Empty == [p |-> {}, s |-> {}, a |-> {}]
PolygonParts(cyc, n, st, nl) ==
  [p |-> { <<v, st>> : v \in Range(cyc) },
   s |-> { <<e, st>> : e \in EdgesOfCyc(cyc) },
   a |-> IF nl > 0 THEN { <<Centroid(Range(cyc)), Prim(n), nl, st>> } ELSE {}]
Parts(o, st, nl) ==
  CASE o.k = "Point"      -> [p |-> { <<o.p, st>> }, s |-> {}, a |-> {}]
    [] o.k = "Segment"    -> [p |-> {}, s |-> { <<{o.a, o.b}, st>> }, a |-> {}]
    [] o.k = "Arrow"      -> [p |-> {}, s |-> {}, a |-> { <<o.c, o.n, o.len, st>> }]
    [] o.k = "Polygon"    -> PolygonParts(o.cyc, o.n, st, nl)
    [] o.k = "Polyhedron" -> [p |-> UNION { PolygonParts(f.cyc, f.n, st, nl).p : f \in o.fs },
                              s |-> UNION { PolygonParts(f.cyc, f.n, st, nl).s : f \in o.fs },
                              a |-> UNION { PolygonParts(f.cyc, f.n, st, nl).a : f \in o.fs }]
    [] OTHER              -> Empty

VInit == pts = {} /\ segs = {} /\ arrs = {} /\ hist = <<>>
AddOK(i, st, nl) == /\ Items[i].k \in Accepted
                    /\ LET d == Parts(Items[i], st, nl)
                       IN pts' = pts \cup d.p /\ segs' = segs \cup d.s /\ arrs' = arrs \cup d.a
                    /\ hist' = Append(hist, [i |-> i, st |-> st, nl |-> nl, ok |-> TRUE])
AddRejected(i, st, nl) == /\ Items[i].k \notin Accepted
                          /\ UNCHANGED <<pts, segs, arrs>>
                          /\ hist' = Append(hist, [i |-> i, st |-> st, nl |-> nl, ok |-> FALSE])
VNext == /\ Len(hist) < MaxAdds
         /\ \E i \in DOMAIN Items, st \in Styles, nl \in NLens : AddOK(i, st, nl) \/ AddRejected(i, st, nl)
VSpec == VInit /\ [][VNext]_vvars
VView == <<pts, segs, arrs>>

---------------------------------------------------------------------------
\* Properties of the machine
\* the scene is exactly what the accepted adds contributed: order and repetition of adds are irrelevant
Contributed == { Parts(Items[hist[n].i], hist[n].st, hist[n].nl) : n \in { m \in DOMAIN hist : hist[m].ok } }
Denotes == /\ pts  = UNION { d.p : d \in Contributed }
           /\ segs = UNION { d.s : d \in Contributed }
           /\ arrs = UNION { d.a : d \in Contributed }
Monotone == [][pts \subseteq pts' /\ segs \subseteq segs' /\ arrs \subseteq arrs']_vvars
\* a polyhedron alone in one style shows V vertices, E edges and (with normals) F arrows, V - E + F = 2:
\* every shared edge and shared vertex is stored exactly once
InStyle(S, st) == { x \in S : x[Len(x)] = st }
EulerScene == \A st \in Styles :
                 (\E n \in DOMAIN hist : hist[n].st = st /\ hist[n].ok /\ Items[hist[n].i].k = "Polyhedron" /\ hist[n].nl > 0
                                         /\ \A m \in DOMAIN hist : (hist[m].st = st /\ hist[m].ok) => (m = n \/ hist[m] = hist[n]))
                 => Cardinality(InStyle(pts, st)) - Cardinality(InStyle(segs, st)) + Cardinality(InStyle(arrs, st)) = 2
\* every drawn edge that came from a polygon or polyhedron has both end points drawn in the same style
EdgeClosed == \A n \in DOMAIN hist : (hist[n].ok /\ Items[hist[n].i].k \in {"Polygon", "Polyhedron"}) =>
                 \A e \in Parts(Items[hist[n].i], hist[n].st, hist[n].nl).s : \A v \in e[1] : <<v, hist[n].st>> \in pts
\* arrows are anchored inside their face: the centroid satisfies the face's edge half-spaces (convexity)
ArrowsSane == \A n \in DOMAIN hist : (hist[n].ok /\ Items[hist[n].i].k = "Polygon" /\ hist[n].nl > 0) =>
                 LET o == Items[hist[n].i] IN \A h \in EdgeHS(o.cyc, o.n) : InHS(Centroid(Range(o.cyc)), h)
=============================================================================
