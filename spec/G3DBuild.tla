------------------------------ MODULE G3DBuild ------------------------------
(***************************************************************************)
(* The shape builders (C14).  Parallelogram / Parallelepiped are exact     *)
(* lattice bodies.  Circle / Cylinder / Cone / Sphere are combinatorial +  *)
(* symbolic: vertex, edge and face counts as functions of the resolution,  *)
(* the ring structure, and closed forms for area and volume as expression  *)
(* trees  [op |-> "rat"|"add"|"mul"|"sqrt"|"sin"|"cos", ...]  where sin /  *)
(* cos take their argument as a rational multiple <<k, n>> of 2*pi.  The   *)
(* trees are data for the harness' evaluator; TLC evaluates them exactly   *)
(* wherever every trigonometric value is rational (n = 4) and compares     *)
(* with the exact kernel (a Cylinder with n = 4 on an axis frame is a box).*)
(***************************************************************************)
EXTENDS G3DCtor

ParallelogramBody(o, v1, v2) == HullPolygon({LP(o), LP(Add(o, v1)), LP(Add(o, v2)), LP(Add(o, Add(v1, v2)))})
ParallelepipedBody(o, v1, v2, v3) == HullBody({ LP(p) : p \in PPiped(o, v1, v2, v3) })

\* ---- expression trees
Rat(n, d)  == [op |-> "rat", q |-> R(n, d)]
Mul(es)    == [op |-> "mul", a |-> es]
Sum(es)    == [op |-> "add", a |-> es]
Sqrt(e)    == [op |-> "sqrt", a |-> <<e>>]
Sin(k, n)  == [op |-> "sin", q |-> <<k, n>>]            \* sin(2 pi k / n)
Cos(k, n)  == [op |-> "cos", q |-> <<k, n>>]
Sq(e)      == Mul(<<e, e>>)

\* r: radius expression, h: height expression (|height vector|), n: resolution
NGonArea(r, n)  == Mul(<<Rat(n, 2), Sq(r), Sin(1, n)>>)                         \* n/2 r^2 sin(2 pi / n)
Chord(r, n)     == Mul(<<Rat(2, 1), r, Sin(1, 2 * n)>>)                         \* 2 r sin(pi / n)
CircleShape(r, n)   == [V |-> n, E |-> n, F |-> 1, area |-> NGonArea(r, n), length |-> Mul(<<Rat(n, 1), Chord(r, n)>>), volume |-> Rat(0, 1)]
CylinderShape(r, h, n) == [V |-> 2 * n, E |-> 3 * n, F |-> n + 2,
                           area |-> Sum(<<Mul(<<Rat(2, 1), NGonArea(r, n)>>), Mul(<<Rat(n, 1), Chord(r, n), h>>)>>),
                           volume |-> Mul(<<NGonArea(r, n), h>>),
                           length |-> Sum(<<Mul(<<Rat(2 * n, 1), Chord(r, n)>>), Mul(<<Rat(n, 1), h>>)>>)]
\* cone: apothem of the base n-gon r cos(pi/n); slant height of a side triangle sqrt(h^2 + apothem^2)
ConeShape(r, h, n) == [V |-> n + 1, E |-> 2 * n, F |-> n + 1,
                       area |-> Sum(<<NGonArea(r, n), Mul(<<Rat(n, 2), Chord(r, n), Sqrt(Sum(<<Sq(h), Sq(Mul(<<r, Cos(1, 2 * n)>>))>>))>>)>>),
                       volume |-> Mul(<<Rat(1, 3), NGonArea(r, n), h>>),
                       length |-> Sum(<<Mul(<<Rat(n, 1), Chord(r, n)>>), Mul(<<Rat(n, 1), Sqrt(Sum(<<Sq(h), Sq(r)>>))>>)>>)]
\* sphere: rings j = 0..n2-1 at latitude j * (pi/2)/n2 (radius r cos, height r sin), poles at height +-r.
\*   latitude angle of ring j is 2 pi * j / (4 n2)
RingR(r, j, n2) == Mul(<<r, Cos(j, 4 * n2)>>)
RingZ(r, j, n2) == Mul(<<r, Sin(j, 4 * n2)>>)
\* frustum between two similar n-gons with circumradii a, b at distance dz:  dz/3 * n/2 sin(2pi/n) (a^2 + a b + b^2)
Frustum(a, b, dz, n) == Mul(<<Rat(n, 6), Sin(1, n), dz, Sum(<<Sq(a), Mul(<<a, b>>), Sq(b)>>)>>)
SphereVolume(r, n1, n2) ==
  Mul(<<Rat(2, 1), Sum([j \in 1..n2 |->
        IF j < n2 THEN Frustum(RingR(r, j - 1, n2), RingR(r, j, n2), Sum(<<RingZ(r, j, n2), Mul(<<Rat(-1, 1), RingZ(r, j - 1, n2)>>)>>), n1)
        ELSE Mul(<<Rat(1, 3), NGonArea(RingR(r, n2 - 1, n2), n1), Sum(<<r, Mul(<<Rat(-1, 1), RingZ(r, n2 - 1, n2)>>)>>)>>)])>>)
SphereShape(r, n1, n2) == [V |-> n1 * (2 * n2 - 1) + 2, E |-> n1 * (2 * n2 - 1) + 2 + 2 * n1 * n2 - 2, F |-> 2 * n1 * n2,
                           volume |-> SphereVolume(r, n1, n2), area |-> Rat(0, 1), length |-> Rat(0, 1)]

\* ---- exact evaluation where every trigonometric value is rational: sin/cos of multiples of pi/2
TrigRat(op, k, n) ==        \* value of sin / cos (2 pi k / n) when 4k/n is an integer
  LET quarter == ((4 * k) \div n) % 4
  IN IF op = "sin" THEN (CASE quarter = 0 -> 0 [] quarter = 1 -> 1 [] quarter = 2 -> 0 [] quarter = 3 -> -1)
     ELSE (CASE quarter = 0 -> 1 [] quarter = 1 -> 0 [] quarter = 2 -> -1 [] quarter = 3 -> 0)
Exact(e) == \/ e.op = "rat"
            \/ (e.op \in {"sin", "cos"} /\ (4 * e.q[1]) % e.q[2] = 0)
RECURSIVE ExactTree(_), EvalRat(_), MulSeq(_), AddSeq(_)
ExactTree(e) == IF e.op \in {"rat", "sin", "cos"} THEN Exact(e)
                ELSE e.op # "sqrt" /\ \A i \in DOMAIN e.a : ExactTree(e.a[i])
MulSeq(s) == IF s = <<>> THEN <<1, 1>> ELSE RMul(EvalRat(Head(s)), MulSeq(Tail(s)))
AddSeq(s) == IF s = <<>> THEN <<0, 1>> ELSE RAdd(EvalRat(Head(s)), AddSeq(Tail(s)))
EvalRat(e) == CASE e.op = "rat" -> e.q
                [] e.op \in {"sin", "cos"} -> RInt(TrigRat(e.op, e.q[1], e.q[2]))
                [] e.op = "mul" -> MulSeq(e.a)
                [] e.op = "add" -> AddSeq(e.a)
=============================================================================
