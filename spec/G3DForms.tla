------------------------------ MODULE G3DForms ------------------------------
(* Plane and Line representation changes (C17). *)
EXTENDS G3DUniv
\* the plane { x : a x1 + b x2 + c x3 = d },  (a,b,c) # 0: foot point of the origin and normal
PlaneFromGeneral(a, b, c, d) == MkPlane(HP(d * a, d * b, d * c, a * a + b * b + c * c), <<a, b, c>>)
OnGeneral(P, a, b, c, d) == a * P[1] + b * P[2] + c * P[3] = d * P[4]
PlaneFrom3(p, q, r) == MkPlane(p, Cross(HDiff(q, p), HDiff(r, p)))
PlaneFromPVV(p, v, w) == MkPlane(p, Cross(v, w))
NegPlane(pl) == MkPlane(pl.p, Neg(pl.n))
LineFromPP(p, q) == MkLine(p, HDiff(q, p))
=============================================================================
