------------------------------ MODULE G3DBodies ------------------------------
(***************************************************************************)
(* A named catalogue of convex polygons and polyhedra given by lattice     *)
(* vertex sets (the H-representation, faces and cycles are derived by      *)
(* Hull), plus "general hulls": all vertex subsets of a small lattice cube *)
(* that are in convex position.  Poses (orientation, scale, translation)   *)
(* are applied exactly by the harness; C13 checks on the specification     *)
(* that every query commutes with them.                                    *)
(***************************************************************************)
EXTENDS G3DUniv

PolyhedronNames == {"tet", "tet2", "cube", "box", "obl", "prism", "pyr", "octa", "wedge", "pprism", "ppyr", "hprism", "gprismA", "gprismB"}
PolygonNames    == {"tri", "triObl", "sq", "rectObl", "trap", "par", "pent", "pentObl", "hex", "hexObl", "stripH", "stripV", "triUp", "triDown", "gtriA", "gtriB"}

Pent2 == {<<0, 0>>, <<2, 0>>, <<3, 1>>, <<2, 2>>, <<0, 2>>}
Hex2  == {<<1, 0>>, <<2, 0>>, <<3, 1>>, <<2, 2>>, <<1, 2>>, <<0, 1>>}
GTriA == {<<0,0,0>>, <<4,1,0>>, <<2,3,0>>}
GTriB == {<<1,-1,0>>, <<3,3,0>>, <<-1,2,0>>}
Lift(P2, z) == { <<p[1], p[2], z>> : p \in P2 }
PPiped(o, v1, v2, v3) == { Add(o, Add(Scale(i, v1), Add(Scale(j, v2), Scale(k, v3)))) : i \in 0..1, j \in 0..1, k \in 0..1 }

VertsOf(name) ==
  CASE name = "tet"    -> {<<0,0,0>>, <<1,0,0>>, <<0,1,0>>, <<0,0,1>>}
    [] name = "tet2"   -> {<<0,0,0>>, <<1,1,0>>, <<1,0,1>>, <<0,1,1>>}
    [] name = "cube"   -> PPiped(Zero3, <<1,0,0>>, <<0,1,0>>, <<0,0,1>>)
    [] name = "box"    -> PPiped(Zero3, <<2,0,0>>, <<0,1,0>>, <<0,0,1>>)
    [] name = "obl"    -> PPiped(Zero3, <<1,0,0>>, <<0,1,0>>, <<1,1,1>>)
    [] name = "prism"  -> {<<0,0,0>>, <<1,0,0>>, <<0,1,0>>, <<0,0,1>>, <<1,0,1>>, <<0,1,1>>}
    [] name = "pyr"    -> {<<0,0,0>>, <<2,0,0>>, <<2,2,0>>, <<0,2,0>>, <<1,1,1>>}
    [] name = "octa"   -> {<<1,1,0>>, <<1,1,2>>, <<1,0,1>>, <<1,2,1>>, <<0,1,1>>, <<2,1,1>>}
    [] name = "wedge"  -> {<<2,2,0>>, <<0,0,2>>, <<2,0,0>>, <<0,2,0>>, <<0,0,0>>}
    [] name = "pprism" -> Lift(Pent2, 0) \cup Lift(Pent2, 1)
    [] name = "ppyr"   -> Lift(Pent2, 0) \cup {<<1,1,2>>}
    [] name = "hprism" -> Lift(Hex2, 0) \cup Lift(Hex2, 1)
    \* polygons
    [] name = "tri"     -> {<<0,0,0>>, <<1,0,0>>, <<0,1,0>>}
    [] name = "triObl"  -> {<<1,0,0>>, <<0,1,0>>, <<0,0,1>>}
    [] name = "sq"      -> {<<0,0,0>>, <<1,0,0>>, <<1,1,0>>, <<0,1,0>>}
    [] name = "rectObl" -> {<<0,0,0>>, <<1,1,0>>, <<1,1,1>>, <<0,0,1>>}
    [] name = "trap"    -> {<<0,0,0>>, <<3,0,0>>, <<2,1,0>>, <<1,1,0>>}
    [] name = "par"     -> {<<0,0,0>>, <<1,0,1>>, <<0,1,1>>, <<1,1,2>>}
    [] name = "pent"    -> Lift(Pent2, 0)
    [] name = "pentObl" -> { <<p[1], p[2], p[1]>> : p \in Pent2 }
    [] name = "hex"     -> Lift(Hex2, 0)
    [] name = "hexObl"  -> {<<2,1,0>>, <<1,2,0>>, <<0,2,1>>, <<0,1,2>>, <<1,0,2>>, <<2,0,1>>}
    \* coplanar pairs that overlap although no vertex of either lies in the other (plus sign, hexagram)
    [] name = "stripH"  -> {<<-1,0,0>>, <<3,0,0>>, <<3,1,0>>, <<-1,1,0>>}
    [] name = "stripV"  -> {<<1,-1,0>>, <<2,-1,0>>, <<2,3,0>>, <<1,3,0>>}
    [] name = "triUp"   -> {<<0,0,0>>, <<4,0,0>>, <<2,3,0>>}
    [] name = "triDown" -> {<<0,2,0>>, <<4,2,0>>, <<2,-1,0>>}
    \* edges of generic slope (1/4, -1, 3/2, 2, 1/4, -3/2): crossings with other faces are not dyadic, results carry float noise
    [] name = "gtriA"   -> GTriA
    [] name = "gtriB"   -> GTriB
    [] name = "gprismA" -> GTriA \cup { <<p[1], p[2], 1>> : p \in GTriA }
    [] name = "gprismB" -> GTriB \cup { <<p[1], p[2], 1>> : p \in GTriB }

\* the body with the given name, all coordinates multiplied by s (so that half-lattice features are integral)
ScaledVerts(name, s) == { LP(Scale(s, v)) : v \in VertsOf(name) }
Polyhedron(name, s)  == HullBody(ScaledVerts(name, s))
Polygon(name, s)     == HullPolygon(ScaledVerts(name, s))
Body(name, s) == IF name \in PolyhedronNames THEN Polyhedron(name, s) ELSE Polygon(name, s)

\* general hulls: k-subsets of the lattice cube {0..c}^3 in convex position
Cube3(c) == (0..c) \X (0..c) \X (0..c)
GeneralPolyhedra(k, c, s) == { ScaledSet \in { { LP(Scale(s, v)) : v \in W } : W \in kSubset(k, Cube3(c)) } :
                               FullDim(ScaledSet) /\ ConvexPos3(ScaledSet) }
GeneralPolygons(k, c, s)  == { ScaledSet \in { { LP(Scale(s, v)) : v \in W } : W \in kSubset(k, Cube3(c)) } :
                               ~CollinearSet(ScaledSet) /\ CoplanarSet(ScaledSet) /\ ConvexPos2(ScaledSet) }

\* a seeded sample of general hulls: the cheap shard on the raw subset comes *before* the expensive convex-position test
GenHullSample(ks, c, s, seed, n) ==
  { HullBody(V) : V \in { V \in UNION { { W \in { { LP(Scale(s, v)) : v \in X } : X \in kSubset(k, Cube3(c)) } : Mix(CodeSet(W), seed) % n = 0 } : k \in ks }
                          : FullDim(V) /\ ConvexPos3(V) } }
\* integer points of the bounding box of a vertex set, expanded by m
BBoxPts(V, m) ==
  LET xs == { P[1] : P \in V } ys == { P[2] : P \in V } zs == { P[3] : P \in V }
      lo(S) == CHOOSE x \in S : \A y \in S : x <= y
      hi(S) == CHOOSE x \in S : \A y \in S : x >= y
  IN ((lo(xs) - m)..(hi(xs) + m)) \X ((lo(ys) - m)..(hi(ys) + m)) \X ((lo(zs) - m)..(hi(zs) + m))

\* structural sanity of a hull body (Euler, every face a planar convex cycle, outward normals)
BodySane(b) ==
  /\ Cardinality(b.vs) - NumEdges(b) + Cardinality(b.fs) = 2
  /\ \A f \in b.fs : /\ Len(f.cyc) >= 3
                    /\ \A i \in 1..Len(f.cyc) : OnBoundary(f.cyc[i], [n |-> f.n, d |-> f.d])
                    /\ \A v \in b.vs : InHS(v, [n |-> f.n, d |-> f.d])
                    /\ Dot(f.n, SomeNormal(Range(f.cyc))) # 0
PolygonSane(p) == Len(p.cyc) >= 3 /\ \A P \in Range(p.cyc) : \A h \in EdgeHS(p.cyc, p.n) : InHS(P, h)
==============================================================================
