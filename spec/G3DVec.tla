------------------------------ MODULE G3DVec ------------------------------
(***************************************************************************)
(* Integer vectors <<x,y,z>>, homogeneous rational points <<X,Y,Z,W>>      *)
(* (W > 0, gcd = 1: the point (X/W, Y/W, Z/W)), primitive directions.      *)
(***************************************************************************)
EXTENDS G3DNum

Zero3 == <<0, 0, 0>>
Add(a, b)   == <<a[1] + b[1], a[2] + b[2], a[3] + b[3]>>
Sub(a, b)   == <<a[1] - b[1], a[2] - b[2], a[3] - b[3]>>
Neg(a)      == <<-a[1], -a[2], -a[3]>>
Scale(k, a) == <<k * a[1], k * a[2], k * a[3]>>
Dot(a, b)   == a[1] * b[1] + a[2] * b[2] + a[3] * b[3]
Cross(a, b) == <<a[2] * b[3] - a[3] * b[2], a[3] * b[1] - a[1] * b[3], a[1] * b[2] - a[2] * b[1]>>
Det3(a, b, c) == Dot(a, Cross(b, c))
Norm2(a)    == Dot(a, a)
IsZero(a)   == a = Zero3
ParallelV(a, b) == Cross(a, b) = Zero3
OrthV(a, b)     == Dot(a, b) = 0

\* primitive vector in the same direction (a # 0)
Prim(a) == LET g == GCD3(a[1], a[2], a[3]) IN <<Div(a[1], g), Div(a[2], g), Div(a[3], g)>>
\* sign of the first non-zero component
LeadSign(a) == IF a[1] # 0 THEN Sign(a[1]) ELSE IF a[2] # 0 THEN Sign(a[2]) ELSE Sign(a[3])
\* primitive, first non-zero component positive (unoriented direction)
SignNorm(a) == LET p == Prim(a) IN IF LeadSign(p) < 0 THEN Neg(p) ELSE p

---------------------------------------------------------------------------
\* Homogeneous points
HP(x, y, z, w) == LET g == GCD4(x, y, z, w)
                      s == IF w < 0 THEN -1 ELSE 1
                  IN <<Div(s * x, g), Div(s * y, g), Div(s * z, g), Div(s * w, g)>>   \* w # 0
HPv(v, w)  == HP(v[1], v[2], v[3], w)
LP(v)      == <<v[1], v[2], v[3], 1>>                     \* lattice point
XYZ(P)     == <<P[1], P[2], P[3]>>
IsLattice(P) == P[4] = 1

\* direction of P - Q, i.e. (P - Q) * (P.w * Q.w)  (positive multiple of the true difference)
HDiff(P, Q) == <<P[1] * Q[4] - Q[1] * P[4], P[2] * Q[4] - Q[2] * P[4], P[3] * Q[4] - Q[3] * P[4]>>
\* n . P  compared with  d  :  sign of  n.P - d   for the half-space  n.x <= d  (d integer)
HSide(P, n, d) == Sign(Dot(n, XYZ(P)) - d * P[4])
\* P + v   (v an integer vector)
HTrans(P, v) == HP(P[1] + v[1] * P[4], P[2] + v[2] * P[4], P[3] + v[3] * P[4], P[4])
\* p + t u  for a homogeneous p, integer u and rational t = <<n, d>>
PointAt(P, u, t) == HP(P[1] * t[2] + t[1] * u[1] * P[4], P[2] * t[2] + t[1] * u[2] * P[4],
                       P[3] * t[2] + t[1] * u[3] * P[4], P[4] * t[2])
\* midpoint
HMid(P, Q) == HP(P[1] * Q[4] + Q[1] * P[4], P[2] * Q[4] + Q[2] * P[4], P[3] * Q[4] + Q[3] * P[4], 2 * P[4] * Q[4])
\* squared distance between two homogeneous points, as a rational
HDist2(P, Q) == LET v == HDiff(P, Q) w == P[4] * Q[4] IN R(Norm2(v), w * w)

\* are the points of the set S collinear / coplanar?  (S a non-empty set of HPs; linear-time forms)
CollinearSet(S) == LET P == CHOOSE P \in S : TRUE
                   IN IF S = {P} THEN TRUE
                      ELSE LET Q == CHOOSE Q \in S : Q # P
                               d == HDiff(Q, P)
                           IN \A T \in S : Cross(d, HDiff(T, P)) = Zero3
CoplanarSet(S)  == IF CollinearSet(S) THEN TRUE
                   ELSE LET P == CHOOSE P \in S : TRUE
                            Q == CHOOSE Q \in S : Q # P
                            d == HDiff(Q, P)
                            T == CHOOSE T \in S : Cross(d, HDiff(T, P)) # Zero3
                            n == Cross(d, HDiff(T, P))
                        IN \A X \in S : Dot(n, HDiff(X, P)) = 0
\* affine rank of a non-empty set of points: 0 point, 1 line, 2 plane, 3 space
AffRank(S) == IF Cardinality(S) = 1 THEN 0
              ELSE IF CollinearSet(S) THEN 1
              ELSE IF CoplanarSet(S) THEN 2 ELSE 3
===========================================================================
