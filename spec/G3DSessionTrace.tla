-------------------------- MODULE G3DSessionTrace --------------------------
(***************************************************************************)
(* Stateful trace specification: recorded SESSIONS of the real library     *)
(* (harness/session_driver.py: objects with identities, created, moved,    *)
(* deep-copied and queried through the public API) are replayed through    *)
(* the ACTIONS OF G3DSession.  The specification's heap evolves by its own *)
(* actions (Create, Move, Query); what the library reported at each step   *)
(* (state of the receiver after a move, return value, query answers, and   *)
(* the final state of every object) is compared with it.  Verdicts are     *)
(* total and named; every event is consumed exactly once (POSTCONDITION).  *)
(***************************************************************************)
EXTENDS G3DSession, Json, IOUtils
SE == INSTANCE SequencesExt

Traces == JsonDeserialize(IOEnv.TRACE_FILE)         \* a sequence of sessions, each a sequence of events
VARIABLES tid, l, bad
tvars == <<tid, l, bad, heap, orig, disp, args, ncopy, hist>>
TObjChoices == {<<>>}  TArgPts == <<>>  TMoveVecs == {}  TAlphabet == {}  TQueryOps == {}  TProbes == <<>>

E == Traces[tid][l]
SeqSet(s) == { s[i] : i \in DOMAIN s }
Norm(o) == CASE o.k = "Polygon" -> HullPolygon(SeqSet(o.vs)) [] o.k = "Polyhedron" -> HullBody(SeqSet(o.vs)) [] OTHER -> o
CanonLogged(o) == CASE o.k = "Polygon" -> [k |-> "Polygon", c |-> SeqSet(o.vs)] [] o.k = "Polyhedron" -> [k |-> "Polyhedron", c |-> SeqSet(o.vs)]
                    [] OTHER -> Canon(o)
Agrees(logged, exact) == logged.k = exact.k /\ CanonLogged(logged) = Canon(exact)
Fail(c)  == bad' = Append(bad, <<tid, l, c>>)
Advance  == IF l = Len(Traces[tid]) THEN tid' = tid + 1 /\ l' = 1 ELSE tid' = tid /\ l' = l + 1
Flat(o)  == o.k \in FlatKinds
InterClause(a, b) == IF Flat(a) /\ Flat(b) THEN "C01.intersection" ELSE IF Flat(a) \/ Flat(b) THEN "C02.intersection" ELSE "C03.intersection"

TraceReset == /\ E.ev = "reset" /\ heap' = <<>> /\ orig' = <<>> /\ disp' = <<>> /\ ncopy' = <<>> /\ args' = <<>> /\ hist' = <<>>
              /\ UNCHANGED bad
TraceCreate == E.ev = "create" /\ Create(Norm(E.obj)) /\ UNCHANGED bad
TraceCopy   == E.ev = "copy" /\ Create(heap[E.id]) /\ (IF Agrees(E.obj, heap[E.id]) THEN UNCHANGED bad ELSE Fail("C20.copy_equal"))
TraceMove   == /\ E.ev = "move" /\ Move(E.id, E.v)
               /\ IF ~Agrees(E.post, heap'[E.id]) THEN Fail("C07.receiver")
                  ELSE IF ~Agrees(E.ret, heap'[E.id]) THEN Fail("C07.return_value") ELSE UNCHANGED bad
\* derived objects: the specification's NegObj / MoveKeep actions (the driver keeps to their guards: two per session, owning kinds)
TraceNeg    == /\ E.ev = "neg" /\ NegObj(E.id)
               /\ IF Agrees(E.obj, heap'[Len(heap')]) THEN UNCHANGED bad ELSE Fail("C09.neg")
TraceMoveKeep == /\ E.ev = "movekeep" /\ MoveKeep(E.id, E.v)
                 /\ IF ~Agrees(E.post, heap'[E.id]) THEN Fail("C07.receiver")
                    ELSE IF ~Agrees(E.ret, heap'[Len(heap')]) THEN Fail("C07.return_value") ELSE UNCHANGED bad
\* a call that must not raise did (move, -polygon, deepcopy on valid objects): the driver ends the session at this event
TraceRaised == /\ E.ev = "raised" /\ UNCHANGED <<heap, orig, disp, args, ncopy, hist>>
               /\ Fail(IF E.what = "move" THEN "C07.move_raises" ELSE IF E.what = "neg" THEN "C09.neg_raises" ELSE "C20.copy_raises")
\* a pure query: the specification's state does not change; the logged answer is compared with the exact one
TraceQuery  == /\ E.ev = "query" /\ UNCHANGED <<heap, orig, disp, args, ncopy>> /\ Step([act |-> "Query", op |-> E.op, i |-> E.i, j |-> E.j])
               /\ LET a == heap[E.i]  b == heap[E.j]
                  IN CASE E.op = "intersection" ->
                            IF E.res.k = "Exception" THEN Fail("C04.total")
                            ELSE IF Agrees(E.res, Inter(a, b)) THEN UNCHANGED bad ELSE Fail(InterClause(a, b))
                       [] E.op = "in" -> IF E.res.k = "Bool" /\ E.res.b = Subset(a, b) THEN UNCHANGED bad ELSE Fail("C05.in")
                       [] E.op = "distance" -> IF E.res.k = "Num2" /\ R(E.res.q[1], E.res.q[2]) = Dist2(a, b) THEN UNCHANGED bad ELSE Fail("C10.distance")
                       [] E.op = "eq" -> IF E.res.k = "Bool" /\ E.res.b = SameSet(a, b) THEN UNCHANGED bad ELSE Fail("C08.eq")
                       [] OTHER -> UNCHANGED bad
\* at the end of a session every object is observed again: nothing but Move may have changed it (purity, ownership, deep-copy independence)
TraceSnap   == /\ E.ev = "snap" /\ UNCHANGED <<heap, orig, disp, args, ncopy, hist>>
               /\ IF Agrees(E.obj, heap[E.id]) THEN UNCHANGED bad ELSE Fail("C20.state")
TraceNext == tid <= Len(Traces) /\ (TraceReset \/ TraceCreate \/ TraceCopy \/ TraceMove \/ TraceNeg \/ TraceMoveKeep \/ TraceRaised \/ TraceQuery \/ TraceSnap) /\ Advance
TraceInit == tid = 1 /\ l = 1 /\ bad = <<>> /\ heap = <<>> /\ orig = <<>> /\ disp = <<>> /\ args = <<>> /\ ncopy = <<>> /\ hist = <<>>
TraceSpec == TraceInit /\ [][TraceNext]_tvars
NEvents == SE!FoldLeft(LAMBDA acc, s : acc + Len(s), 0, Traces)        \* (iterative: a recursive sum overflows the Java stack on thousands of sessions)
Report == tid <= Len(Traces) \/ PrintT(ToJson([sessions |-> Len(Traces), events |-> NEvents, bad |-> bad]))
\* the Session invariants hold along every recorded session as well
TraceDispInv == \A i \in DOMAIN heap : heap[i] = Translate(orig[i], disp[i])
AllConsumed == TLCGet("stats").diameter = NEvents + 1
=============================================================================
