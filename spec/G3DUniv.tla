------------------------------ MODULE G3DUniv ------------------------------
(***************************************************************************)
(* Finite universes of operands (all defined in the specification, none in *)
(* the harness): lattice boxes, primitive directions, the flat objects     *)
(* over a lattice, and sharding of large case spaces.                      *)
(***************************************************************************)
EXTENDS G3DInter
FSE == INSTANCE FiniteSetsExt
kSubset(k, S) == FSE!kSubset(k, S)

Box(B)   == (-B..B) \X (-B..B) \X (-B..B)
DirsOf(B)  == { v \in Box(B) : v # Zero3 /\ GCD3(v[1], v[2], v[3]) = 1 }
UDirsOf(B) == { v \in DirsOf(B) : LeadSign(v) > 0 }            \* unoriented directions

\* segments two lattice steps long (both orientations): collinear objects can then overlap PARTLY (an origin or an end point strictly
\* inside the other segment), which one-step segments never do
LongSteps == { Scale(k, w) : k \in {2, -2}, w \in {<<1, 0, 0>>, <<0, 1, 0>>, <<0, 0, 1>>, <<1, 1, 0>>, <<1, -1, 1>>} }
\* flat objects of one kind with defining points in `pts` and directions from a B-box
FlatObjs(kind, pts, B) ==
  CASE kind = "Point"    -> { MkPoint(LP(p)) : p \in pts }
    [] kind = "Line"     -> { MkLine(LP(p), u) : p \in pts, u \in UDirsOf(B) }
    [] kind = "HalfLine" -> { MkHalfLine(LP(p), u) : p \in pts, u \in DirsOf(B) }
    [] kind = "Segment"  -> { MkSegment(LP(p), LP(Add(p, v))) : p \in pts, v \in (Box(B) \ {Zero3}) \cup LongSteps }
    [] kind = "Plane"    -> { MkPlane(LP(p), n) : p \in pts, n \in UDirsOf(B) }

\* integer code of an object (for deterministic sharding); M keeps everything far below 2^31
M == 1000003
Mix(h, x)  == (h * 131 + x + 1000) % M
MixV(h, v) == Mix(Mix(Mix(h, v[1]), v[2]), v[3])
MixP(h, P) == Mix(MixV(h, P), P[4])
RECURSIVE MixSeqP(_, _)
MixSeqP(h, q) == IF q = <<>> THEN h ELSE MixSeqP(MixP(h, Head(q)), Tail(q))
CodeSet(V) == MixSeqP(17, SetToSeq(V))
CoordSum(V) == LET q == SetToSeq(V) IN SumSeq([i \in 1..Len(q) |-> (q[i][1] + 3 * q[i][2] + 7 * q[i][3] + 11 * q[i][4]) % 1009])
Code(o) ==
  CASE o.k = "Point"    -> MixP(1, o.p)
    [] o.k = "Line"     -> MixV(MixP(2, o.p), o.u)
    [] o.k = "HalfLine" -> MixV(MixP(3, o.p), o.u)
    [] o.k = "Segment"  -> MixP(MixP(4, o.a), o.b)
    [] o.k = "Plane"    -> MixV(MixP(5, o.p), o.n)
    [] o.k = "Polygon"  -> Mix(6, CodeSet(Range(o.cyc)))
    [] o.k = "Polyhedron" -> Mix(7, CodeSet(o.vs))
    [] OTHER -> 0
InShard3(a, b, t, seed, n) == n = 1 \/ (Mix(MixV(Mix(Code(a), Code(b)), t), seed) % n) = 0
InShard(a, b, seed, n) == n = 1 \/ (Mix(Mix(Code(a), Code(b)), seed) % n) = 0
===========================================================================
