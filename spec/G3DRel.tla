------------------------------- MODULE G3DRel -------------------------------
(***************************************************************************)
(* angle / parallel / orthogonal for Line, Plane and Vector operands.      *)
(* The angle is carried as the rational cos^2 (or sin^2 for line/plane)    *)
(* plus its class.                                                         *)
(***************************************************************************)
EXTENDS G3DMeasure

MkVector(v) == [k |-> "Vector", v |-> v]
RelDir(o) == CASE o.k = "Line" -> o.u [] o.k = "Plane" -> o.n [] o.k = "Vector" -> o.v
RelSupported(a, b) == {a.k, b.k} \in {{"Line"}, {"Line", "Plane"}, {"Plane"}, {"Vector"}}
Mixed(a, b) == {a.k, b.k} = {"Line", "Plane"}
\* cos^2 of the angle between the two directions
Cos2Dirs(u, v) == LET d == Dot(u, v) IN R(d * d, Norm2(u) * Norm2(v))
\* for Line/Plane the documented angle is the one to the plane: sin^2(angle) = cos^2(u, n)
AngleSpec(a, b) == LET c == Cos2Dirs(RelDir(a), RelDir(b))
                   IN IF Mixed(a, b) THEN [fn |-> "asin_sqrt", q |-> c] ELSE [fn |-> "acos_sqrt", q |-> c]
ParallelRel(a, b) == IF Mixed(a, b) THEN Dot(RelDir(a), RelDir(b)) = 0 ELSE ParallelV(RelDir(a), RelDir(b))
OrthRel(a, b)     == IF Mixed(a, b) THEN ParallelV(RelDir(a), RelDir(b)) ELSE Dot(RelDir(a), RelDir(b)) = 0
AngleClass(a, b)  == IF ParallelRel(a, b) THEN "Parallel" ELSE IF OrthRel(a, b) THEN "Orthogonal" ELSE "Oblique"
\* coherence of the three (checked by TLC on every case)
RelCoherent(a, b) ==
  LET s == AngleSpec(a, b)
      zero == IF s.fn = "acos_sqrt" THEN s.q = <<1, 1>> ELSE s.q = <<0, 1>>     \* angle = 0
      half == IF s.fn = "acos_sqrt" THEN s.q = <<0, 1>> ELSE s.q = <<1, 1>>     \* angle = pi/2
  IN (ParallelRel(a, b) <=> zero) /\ (OrthRel(a, b) <=> half)
=============================================================================
