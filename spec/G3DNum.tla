------------------------------ MODULE G3DNum ------------------------------
(***************************************************************************)
(* Exact integer / rational arithmetic used by the whole Geometry3D        *)
(* specification.  TLC integers are 32-bit and TLC *raises* on overflow,   *)
(* so nothing here can silently wrap.  A rational is a pair <<n, d>> with  *)
(* d > 0 and gcd(n, d) = 1 (unique representation: equality of rationals   *)
(* is equality of tuples).                                                 *)
(***************************************************************************)
EXTENDS Integers, Sequences, FiniteSets

Abs(x)    == IF x < 0 THEN -x ELSE x
Sign(x)   == IF x < 0 THEN -1 ELSE IF x > 0 THEN 1 ELSE 0
Min(a, b) == IF a <= b THEN a ELSE b
Max(a, b) == IF a >= b THEN a ELSE b

RECURSIVE GCDpos(_, _)
GCDpos(a, b) == IF b = 0 THEN a ELSE GCDpos(b, a % b)     \* a, b >= 0
GCD(a, b)    == GCDpos(Abs(a), Abs(b))                      \* GCD(0,0) = 0
GCD3(a, b, c)    == GCD(GCD(a, b), c)
GCD4(a, b, c, d) == GCD(GCD(a, b), GCD(c, d))

\* exact division (caller guarantees divisibility); works for negative a
Div(a, g) == IF a >= 0 THEN a \div g ELSE -((-a) \div g)

---------------------------------------------------------------------------
\* Rationals
R(n, d) == LET g == GCD(n, d)
               s == IF d < 0 THEN -1 ELSE 1
           IN IF n = 0 THEN <<0, 1>> ELSE <<Div(s * n, g), Div(s * d, g)>>
RInt(n)     == <<n, 1>>
RAdd(a, b)  == R(a[1] * b[2] + b[1] * a[2], a[2] * b[2])
RSub(a, b)  == R(a[1] * b[2] - b[1] * a[2], a[2] * b[2])
RMul(a, b)  == R(a[1] * b[1], a[2] * b[2])
RDiv(a, b)  == R(a[1] * b[2], a[2] * b[1])                  \* b # 0
RNeg(a)     == <<-a[1], a[2]>>
RLess(a, b) == a[1] * b[2] < b[1] * a[2]
RLeq(a, b)  == a[1] * b[2] <= b[1] * a[2]
RMin(a, b)  == IF RLeq(a, b) THEN a ELSE b
RMax(a, b)  == IF RLeq(a, b) THEN b ELSE a
RIsZero(a)  == a[1] = 0
RSign(a)    == Sign(a[1])

\* minimum / maximum of a non-empty finite set of rationals
RSetMin(S) == CHOOSE x \in S : \A y \in S : RLeq(x, y)
RSetMax(S) == CHOOSE x \in S : \A y \in S : RLeq(y, x)

\* integer square root test (used for exactly evaluable radicands)
RECURSIVE ISqrtFrom(_, _)
ISqrtFrom(n, k) == IF k * k >= n THEN k ELSE ISqrtFrom(n, k + 1)
ISqrt(n)        == ISqrtFrom(n, 0)                          \* least k with k*k >= n  (n small)
IsSquare(n)     == n >= 0 /\ ISqrt(n) * ISqrt(n) = n

\* fold helpers over sequences (kept local: no dependency on community Folds)
RECURSIVE SumSeq(_)
SumSeq(s) == IF s = <<>> THEN 0 ELSE Head(s) + SumSeq(Tail(s))

RECURSIVE SetToSeq(_)
SetToSeq(S) == IF S = {} THEN <<>> ELSE LET x == CHOOSE x \in S : TRUE IN <<x>> \o SetToSeq(S \ {x})
===========================================================================
