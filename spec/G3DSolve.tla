------------------------------ MODULE G3DSolve ------------------------------
(***************************************************************************)
(* Linear systems given as augmented integer matrices (C16).               *)
(*  L1: rank by minors, consistency (Rouche-Capelli), number of free       *)
(*      parameters, IsSolution for rational candidate solutions.           *)
(*  L2: the library's elimination loop and Solution object over exact      *)
(*      rationals (same case order, same pivot choice), with the flag      *)
(*      COUPLED selecting the original loop in which a pivot-less column   *)
(*      also advanced the pivot row.  TLC checks  L2 refines L1.           *)
(***************************************************************************)
EXTENDS G3DNum

\* a matrix is a sequence of rows, a row a sequence of entries
NRows(m) == Len(m)
NCols(m) == Len(m[1])
Coef(m)  == [i \in 1..NRows(m) |-> [j \in 1..(NCols(m) - 1) |-> m[i][j]]]

\* ---- L1 (integer entries)
Det2(m, r1, r2, c1, c2) == m[r1][c1] * m[r2][c2] - m[r1][c2] * m[r2][c1]
Det3m(m, c1, c2, c3) == m[1][c1] * Det2(m, 2, 3, c2, c3) - m[1][c2] * Det2(m, 2, 3, c1, c3) + m[1][c3] * Det2(m, 2, 3, c1, c2)
Rank(m) ==
  LET RR == 1..NRows(m)  CC == 1..NCols(m)
  IN IF NRows(m) >= 3 /\ NCols(m) >= 3 /\ \E c1, c2, c3 \in CC : c1 < c2 /\ c2 < c3 /\ Det3m(m, c1, c2, c3) # 0 THEN 3
     ELSE IF NRows(m) >= 2 /\ \E r1, r2 \in RR, c1, c2 \in CC : r1 < r2 /\ c1 < c2 /\ Det2(m, r1, r2, c1, c2) # 0 THEN 2
     ELSE IF \E r \in RR, c \in CC : m[r][c] # 0 THEN 1 ELSE 0
Consistent(m) == Rank(Coef(m)) = Rank(m)
Unknowns(m)   == NCols(m) - 1
FreeCount(m)  == Unknowns(m) - Rank(Coef(m))
\* x: sequence of rationals
RECURSIVE RDotFrom(_, _, _)
RDotFrom(row, x, j) == IF j > Len(x) THEN <<0, 1>> ELSE RAdd(RMul(RInt(row[j]), x[j]), RDotFrom(row, x, j + 1))
IsSolution(m, x) == \A i \in 1..NRows(m) : RDotFrom(m[i], x, 1) = RInt(m[i][NCols(m)])

\* ---- L2 over rationals
ToRat(m) == [i \in 1..NRows(m) |-> [j \in 1..NCols(m) |-> RInt(m[i][j])]]
RAbsLess(a, b) == Abs(a[1]) * b[2] < Abs(b[1]) * a[2]
\* find_pivot_row: among rows r..M the one with the biggest |entry| in column j (ties: the last such row, as max() on (abs, index) pairs)
PivotRow(m, r, j) ==
  LET cand == { i \in r..NRows(m) : ~RIsZero(m[i][j]) }
  IN IF cand = {} THEN 0
     ELSE CHOOSE i \in cand : \A k \in cand : RAbsLess(m[k][j], m[i][j]) \/ (Abs(m[k][j][1]) * m[i][j][2] = Abs(m[i][j][1]) * m[k][j][2] /\ k <= i)
SwapRows(m, a, b) == [i \in 1..NRows(m) |-> IF i = a THEN m[b] ELSE IF i = b THEN m[a] ELSE m[i]]
ElimBelow(m, r, j) == [i \in 1..NRows(m) |->
                         IF i <= r THEN m[i]
                         ELSE LET f == RNeg(RDiv(m[i][j], m[r][j])) IN [c \in 1..NCols(m) |-> RAdd(m[i][c], RMul(f, m[r][c]))]]
\* the loop  for j in range(N-1)  with pivot row index r;  COUPLED = TRUE reproduces the original code (r = j always)
RECURSIVE GELoop(_, _, _, _)
GELoop(m, j, r, coupled) ==
  IF j > NCols(m) - 1 THEN m
  ELSE IF r > NRows(m) THEN (IF coupled THEN GELoop(m, j + 1, r + 1, coupled) ELSE m)
  ELSE LET p == PivotRow(m, r, j)
       IN IF p = 0 THEN GELoop(m, j + 1, IF coupled THEN r + 1 ELSE r, coupled)
          ELSE GELoop(ElimBelow(SwapRows(m, r, p), r, j), j + 1, r + 1, coupled)
Echelon(m, coupled) == GELoop(ToRat(m), 1, 1, coupled)
NullRow(row)   == \A c \in 1..Len(row) : RIsZero(row[c])
NullCoefs(row) == \A c \in 1..(Len(row) - 1) : RIsZero(row[c])
SolvableL2(ref) == ~\E i \in 1..Len(ref) : NullCoefs(ref[i]) /\ ~RIsZero(ref[i][Len(ref[i])])
VarArgsL2(ref)  == (Len(ref[1]) - 1) - Cardinality({ i \in 1..Len(ref) : ~NullRow(ref[i]) })
\* row echelon form: the leading entries move strictly to the right, null rows at the bottom
Lead(row) == IF NullCoefs(row) THEN Len(row) ELSE CHOOSE c \in 1..(Len(row) - 1) : ~RIsZero(row[c]) /\ \A d \in 1..(c - 1) : RIsZero(row[d])
IsEchelon(ref) == \A i \in 1..(Len(ref) - 1) : Lead(ref[i]) < Lead(ref[i + 1]) \/ (NullCoefs(ref[i]) /\ NullCoefs(ref[i + 1]))

\* Solution.__call__ (fixed form): free unknowns are the non-pivot columns, given values go to them in order, then back substitution
PivotCols(ref) == { Lead(ref[i]) : i \in { i \in 1..Len(ref) : ~NullCoefs(ref[i]) } }
RECURSIVE BackSub(_, _, _)
BackSub(ref, vals, i) ==
  IF i = 0 THEN vals
  ELSE IF NullCoefs(ref[i]) THEN BackSub(ref, vals, i - 1)
  ELSE LET c == Lead(ref[i])   n == Len(ref[i]) - 1
           RECURSIVE Acc(_)
           Acc(j) == IF j > n THEN ref[i][n + 1] ELSE RSub(Acc(j + 1), RMul(ref[i][j], vals[j]))
       IN BackSub(ref, [vals EXCEPT ![c] = RDiv(Acc(c + 1), ref[i][c])], i - 1)
CallL2(ref, params) ==
  LET n == Len(ref[1]) - 1
      free == { c \in 1..n : c \notin PivotCols(ref) }
      fseq == SetToSeq(free)
      \* the k-th free column in increasing order receives the k-th given value
      ord(c) == Cardinality({ d \in free : d < c }) + 1
      v0 == [c \in 1..n |-> IF c \in free THEN params[ord(c)] ELSE <<0, 1>>]
  IN BackSub(ref, v0, Len(ref))
=============================================================================
