"""./check --setup : parse every specification module with SANY and run a short TLC smoke
model; nothing is downloaded or installed."""
import glob
import os
import sys

import tlcio


def binding_demo():
    """the trace specification is bound to the code: a recorded session validates, and corrupting one recorded field makes
    TLC name exactly that event; dropping the tail of the trace file is caught by comparing the event count"""
    import json
    import shutil
    import traces
    wd = tlcio.workdir()
    try:
        idx = None
        for seed in range(7, 27):          # (the driver's random stream changes whenever the driver grows: look for a usable event)
            f, stats = traces.driver_events(wd, seed, 25)
            rep, events = traces.validate(f)
            if rep["bad"] or rep["events"] != len(events) or not events:
                print("binding demo: clean trace not accepted:", rep["bad"][:3])
                return 1
            idx = next((i for i, e in enumerate(events) if e["op"] == "intersection" and e.get("res", {}).get("k") == "Point"), None)
            if idx is not None:
                events[idx]["res"]["p"][0] += 1
                break
            idx = next((i for i, e in enumerate(events) if e["op"] == "in" and e.get("res", {}).get("k") == "Bool"), None)
            if idx is not None:
                events[idx]["res"]["b"] = not events[idx]["res"]["b"]
                break
        if idx is None:
            print("binding demo: no usable event recorded")
            return 1
        g = f + ".corrupt"
        json.dump(events, open(g, "w"))
        rep2, _ = traces.validate(g)
        ok = [b[0] for b in rep2["bad"]] == [idx + 1]
        print("binding demo: %d recorded events accepted; one corrupted coordinate -> verdicts %s (%s)" % (len(events), rep2["bad"], "ok" if ok else "WRONG"))
        return 0 if ok else 1
    finally:
        shutil.rmtree(wd, ignore_errors=True)


def main():
    bad = 0
    mods = sorted(glob.glob(os.path.join(tlcio.SPEC, "*.tla")) + glob.glob(os.path.join(tlcio.SPEC, "mc", "*.tla")))
    for m in mods:
        if os.path.basename(m).startswith("Proofs_"):
            continue                      # proof modules import TLAPS.tla, which only tlapm knows; C18 runs tlapm on them
        ok, out = tlcio.sany(m)
        print("sany %-28s %s" % (os.path.basename(m), "ok" if ok else "FAILED"))
        if not ok:
            print(out[-1500:])
            bad += 1
    cfg = tlcio.make_cfg(dict(B=1, KA={"Point"}, KB={"Segment"}, SEED=0, NSHARD=1, NBORING=1),
                         ["AnalyticEqGeneric", "Symmetric", "Typed"])
    run = tlcio.TLCRun("MC_Flat.tla", cfg, workers=4, timeout_s=120).drain()
    print("tlc smoke: ok=%s states=%s" % (run.ok, run.stats))
    if not run.ok:
        print("\n".join(run.log[-30:]))
        bad += 1
    bad += binding_demo()
    try:
        import geom  # noqa: F401
        print("library import ok from", geom.REPO)
    except Exception as e:  # noqa: BLE001
        print("library import FAILED:", e)
        bad += 1
    tlcio.cleanup_workroot()
    return 0 if bad == 0 else 2


if __name__ == "__main__":
    sys.exit(main())
