"""./check --setup : parse every specification module with SANY and run a short TLC smoke
model; nothing is downloaded or installed."""
import glob
import os
import sys

import tlcio


def main():
    bad = 0
    mods = sorted(glob.glob(os.path.join(tlcio.SPEC, "*.tla")) + glob.glob(os.path.join(tlcio.SPEC, "mc", "*.tla")))
    for m in mods:
        ok, out = tlcio.sany(m)
        print("sany %-28s %s" % (os.path.basename(m), "ok" if ok else "FAILED"))
        if not ok:
            print(out[-1500:])
            bad += 1
    cfg = tlcio.make_cfg(dict(B=1, KA={"Point"}, KB={"Segment"}, SEED=0, NSHARD=1, NBORING=1),
                         ["AnalyticEqGeneric", "Symmetric", "Typed"])
    run = tlcio.TLCRun("MC_Flat.tla", cfg, workers=4, timeout_s=120).drain()
    print("tlc smoke: ok=%s states=%s" % (run.ok, run.stats))
    if not run.ok:
        print("\n".join(run.log[-30:]))
        bad += 1
    try:
        import geom  # noqa: F401
        print("library import ok from", geom.REPO)
    except Exception as e:  # noqa: BLE001
        print("library import FAILED:", e)
        bad += 1
    tlcio.cleanup_workroot()
    return 0 if bad == 0 else 2


if __name__ == "__main__":
    sys.exit(main())
