"""Code -> spec trace validation: obtain recorded events (unit tests of the repository, or the independent driver), let TLC
validate them against spec/G3DTrace.tla, and turn TLC's named verdicts into mismatch records."""
import json
import os
import subprocess
import sys

import tlcio

HERE = os.path.dirname(os.path.abspath(__file__))
REPO = os.environ.get("G3D_REPO", "/repo")
CFG = "SPECIFICATION TraceSpec\nINVARIANT Report\nPOSTCONDITION AllConsumed\nCHECK_DEADLOCK FALSE\n"


def _env():
    e = dict(os.environ)
    e["PYTHONPATH"] = HERE + ":" + REPO
    e["PYTHONHASHSEED"] = "0"
    e["G3D_VERIF"] = "1"
    return e


def unit_test_events(wd):
    out = os.path.join(wd, "unit_trace.json")
    e = _env()
    e["G3D_TRACE_OUT"] = out
    r = subprocess.run([sys.executable, "-m", "pytest", "-q", "-p", "no:cacheprovider", "-p", "g3d_trace_plugin",
                        os.path.join(REPO, "unit_tests")], capture_output=True, text=True, env=e, cwd=wd, timeout=900)
    if not os.path.exists(out):
        raise tlcio.MachineryError("recording the unit tests failed: " + (r.stdout + r.stderr)[-600:])
    stats = json.load(open(out + ".stats"))
    stats["pytest_tail"] = r.stdout.strip().splitlines()[-1] if r.stdout.strip() else ""
    return out, stats


def driver_events(wd, seed, nsessions):
    out = os.path.join(wd, "driver_trace.json")
    r = subprocess.run([sys.executable, os.path.join(HERE, "trace_driver.py"), str(seed), str(nsessions), out],
                       capture_output=True, text=True, env=_env(), cwd=wd, timeout=1800)
    if r.returncode != 0 or not os.path.exists(out):
        raise tlcio.MachineryError("trace driver failed: " + (r.stdout + r.stderr)[-600:])
    return out, json.loads(r.stdout.strip().splitlines()[-1])


SESSION_CFG = ("SPECIFICATION TraceSpec\nCONSTANTS\n  ObjChoices <- TObjChoices\n  ArgPts <- TArgPts\n  MoveVecs <- TMoveVecs\n"
               "  Alphabet <- TAlphabet\n  QueryOps <- TQueryOps\n  MaxDepth = 0\n  Probes <- TProbes\n"
               "INVARIANT Report\nINVARIANT TraceDispInv\nPOSTCONDITION AllConsumed\nCHECK_DEADLOCK FALSE\n")


def session_events(wd, seed, nsessions):
    out = os.path.join(wd, "session_trace.json")
    r = subprocess.run([sys.executable, os.path.join(HERE, "session_driver.py"), str(seed), str(nsessions), out],
                       capture_output=True, text=True, env=_env(), cwd=wd, timeout=1800)
    if r.returncode != 0 or not os.path.exists(out):
        raise tlcio.MachineryError("session driver failed: " + (r.stdout + r.stderr)[-600:])
    return out, json.loads(r.stdout.strip().splitlines()[-1])


def validate_sessions(trace_file, timeout_s=1800):
    """stateful validation through the actions of the Session machine; returns (report, flat event list with (tid, l) -> event)"""
    sessions = json.load(open(trace_file))
    if not sessions:
        return {"sessions": 0, "events": 0, "bad": []}, sessions
    run = tlcio.TLCRun(os.path.join(tlcio.SPEC, "G3DSessionTrace.tla"), SESSION_CFG, workers=1, timeout_s=timeout_s,
                       env={"TRACE_FILE": trace_file})
    rep = None
    for line in run.raw_lines():
        rep = tlcio.parse_case(line)
    if not run.ok or rep is None:
        raise tlcio.MachineryError("session trace validation did not complete: %s\n%s" % (run.error, "\n".join(run.log[-25:])))
    return rep, sessions


def validate(trace_file, timeout_s=1800):
    """returns (report dict {events, skipped, bad: [[index, clause], ...]}, events list)"""
    events = json.load(open(trace_file))
    if not events:
        return {"events": 0, "skipped": 0, "bad": []}, events
    run = tlcio.TLCRun(os.path.join(tlcio.SPEC, "G3DTrace.tla"), CFG, workers=1, timeout_s=timeout_s, env={"TRACE_FILE": trace_file})
    rep = None
    for line in run.raw_lines():
        rep = tlcio.parse_case(line)
    if not run.ok or rep is None:
        raise tlcio.MachineryError("trace validation did not complete (an event no disjunct matches, overflow, or TLC error): %s\n%s"
                                   % (run.error, "\n".join(run.log[-25:])))
    return rep, events


def verdict_mismatches(rep, events, source):
    out = []
    for idx, clause in rep["bad"]:
        ev = events[idx - 1]
        kinds = [a.get("k") for a in ev.get("args", [])]
        out.append({"prop": clause.split(".")[0], "clause": clause + ".trace", "detail": "recorded %s event disagrees with the specification" % ev["op"],
                    "sig": {"op": ev["op"], "kinds": kinds, "source": source, "res": (ev.get("res") or {}).get("k")},
                    "case": {"trace_event": ev, "source": source}, "expected": None, "observed": ev.get("res"), "pose": None, "tag": "trace"})
    return out


def run_for(res, sources, props, seed=0, nsessions=300):
    """record + validate the given sources; verdicts whose clause belongs to `props` become mismatches of this check"""
    wd = tlcio.workdir()
    total = {"events": 0, "skipped": 0, "verdicts_other_properties": 0, "sources": {}}
    try:
        for src in sources:
            if src == "sessions":
                f, stats = session_events(wd, seed, nsessions)
                rep, sessions = validate_sessions(f)
                allm = []
                for tid, l, clause in rep["bad"]:
                    ev = sessions[tid - 1][l - 1]
                    allm.append({"prop": clause.split(".")[0], "clause": clause + ".session_trace",
                                 "detail": "recorded session disagrees with the Session machine at event %d" % l,
                                 "sig": {"op": ev.get("op", ev["ev"]), "ev": ev["ev"], "source": src},
                                 "case": {"session": sessions[tid - 1], "event_index": l}, "expected": None, "observed": ev.get("res"),
                                 "pose": None, "tag": "trace"})
                rep = {"events": rep["events"], "skipped": 0, "bad": rep["bad"]}
                mine = [m for m in allm if m["prop"] in props]
            else:
                if src == "unit_tests":
                    f, stats = unit_test_events(wd)
                else:
                    f, stats = driver_events(wd, seed, nsessions)
                rep, events = validate(f)
                mine = [m for m in verdict_mismatches(rep, events, src) if m["prop"] in props]
            other = len(rep["bad"]) - len(mine)
            for m in mine:
                m["prop"] = res.prop
                sk = json.dumps([m["clause"], m["sig"]], sort_keys=True)
                c = res.sig_counts.get(sk, 0)
                res.sig_counts[sk] = c + 1
                if c < 6:
                    res.mism.append(m)
                res.nmism += 1
            total["events"] += rep["events"]
            total["skipped"] += rep["skipped"]
            total["verdicts_other_properties"] += other
            total["sources"][src] = dict(stats, events=rep["events"], skipped_by_spec=rep["skipped"], verdicts=len(rep["bad"]))
    finally:
        import shutil
        shutil.rmtree(wd, ignore_errors=True)
    res.extra["traces_code_to_spec"] = res.extra.get("traces_code_to_spec", 0) + total["events"] - total["skipped"]
    res.extra["trace_validation"] = total
    return total
