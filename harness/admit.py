"""Admission filters prescribed by the properties' quantifiers (DESIGN 7.3).  A filter can
only *skip* a case; it never produces a verdict.  It is evaluated lazily, when a case
mismatches, which gives the same verdicts as evaluating it up front."""
from decimal import Decimal, getcontext
from fractions import Fraction as Fr

getcontext().prec = 60


def _dec(fr):
    return Decimal(fr.numerator) / Decimal(fr.denominator)


def near_boundary(x, sig=10, margin=Decimal("0.005")):
    """is the real number x (Fraction or Decimal) within `margin` rounding steps of a decimal
    rounding boundary k*10^-sig + 0.5*10^-sig ?   (property text: 5e-13 absolute at sig=10 = 0.005 step)"""
    d = _dec(x) if isinstance(x, Fr) else x
    y = abs(d) * (Decimal(10) ** sig)
    frac = y - int(y)
    return abs(frac - Decimal("0.5")) <= margin


def unit_components(v):
    n2 = sum(x * x for x in v)
    if n2 == 0:
        return []
    r = _dec(Fr(n2)).sqrt()
    return [_dec(Fr(x)) / r for x in v]


def hashed_quantities(objs, pose):
    """coordinates, unit directions / normals and plane offsets the library hashes, for the
    given specification objects under the pose (exact or 60-digit)"""
    qs = []

    def pt(P):
        p = pose.pt(P)
        qs.extend(p)          # (Point.__hash__ multiplies the already rounded coordinates: the products add no boundary)
        return p

    def plane(P, n):
        p = pose.pt(P)
        v = pose.vec(n)
        uc = unit_components(v)
        qs.extend(uc)
        if uc:
            qs.append(sum(uc[i] * _dec(p[i]) for i in range(3)))

    for o in objs:
        k = o.get("k")
        if k == "Point":
            pt(o["p"])
        elif k in ("Line", "HalfLine"):
            pt(o["p"])
            qs.extend(unit_components(pose.vec(o["u"])))
            qs.extend(pose.vec(o["u"]))
        elif k == "Segment":
            pt(o["a"])
            pt(o["b"])
        elif k == "Plane":
            pt(o["p"])
            plane(o["p"], o["n"])
        elif k == "Polygon":
            for P in o["cyc"]:
                pt(P)
            if "n" in o:
                plane(o["cyc"][0], o["n"])
        elif k == "Polyhedron":
            for P in o["vs"]:
                pt(P)
            for f in o["fs"]:
                plane(f["cyc"][0], f["n"])
    return qs


def hash_boundary_free(objs, pose, sig=10):
    return not any(near_boundary(q, sig) for q in hashed_quantities(objs, pose))
