"""Independent seeded sessions on the real library with object identities: create, move (receiver kept), derive (-polygon, kept
return value of move), deep copy, query
(intersection / in / distance / ==) and a final snapshot of every object.  The events are validated by TLC through the actions of
the Session state machine (spec/G3DSessionTrace.tla)."""
import copy
import json
import random
import sys

import recorder
from recorder import abstract, OutOfDomain, Unsnappable, rat

sys.path.insert(0, recorder.REPO)
from Geometry3D import *  # noqa: E402,F401,F403
import logging  # noqa: E402

logging.disable(logging.CRITICAL)


def q4(rng):
    return rng.randint(-8, 8) / 4.0 if rng.random() < 0.3 else float(rng.randint(-2, 2))


def vec(rng):
    while True:
        v = Vector(float(rng.randint(-2, 2)), float(rng.randint(-2, 2)), float(rng.randint(-2, 2)))
        if v.length() > 0:
            return v


def make(rng):
    k = rng.choice(("Point", "Line", "HalfLine", "Segment", "Plane", "Polygon", "Polyhedron"))
    p = Point(q4(rng), q4(rng), q4(rng))
    try:
        if k == "Point":
            return p
        if k == "Line":
            return Line(p, vec(rng))
        if k == "HalfLine":
            return HalfLine(p, vec(rng))
        if k == "Segment":
            return Segment(p, vec(rng))
        if k == "Plane":
            return Plane(p, vec(rng))
        o = Point(float(rng.randint(-1, 1)), float(rng.randint(-1, 1)), float(rng.randint(-1, 1)))
        if k == "Polygon":
            return Parallelogram(o, vec(rng), vec(rng))
        return Parallelepiped(o, vec(rng), vec(rng), vec(rng))
    except Exception:  # noqa: BLE001
        return None


MEM = {("Point", "Line"), ("Point", "HalfLine"), ("Point", "Segment"), ("Point", "Plane"), ("Point", "Polygon"), ("Point", "Polyhedron"),
       ("Segment", "Line"), ("Segment", "HalfLine"), ("Segment", "Segment"), ("Segment", "Plane"), ("Segment", "Polygon"),
       ("Segment", "Polyhedron"), ("HalfLine", "Line"), ("HalfLine", "HalfLine"), ("HalfLine", "Plane"), ("Line", "Plane"),
       ("Polygon", "Plane"), ("Polygon", "Polyhedron")}
DIST = {frozenset(("Point",)), frozenset(("Point", "Line")), frozenset(("Line",)), frozenset(("Point", "Plane")), frozenset(("Line", "Plane"))}


class Raised(Exception):
    """a library call that must not raise did: the event is logged and the session ends there (its state is undefined afterwards)"""


def guarded(ev, what, i, f):
    try:
        return f()
    except (OutOfDomain, Unsnappable):
        raise
    except Exception as e:  # noqa: BLE001
        ev.append({"ev": "raised", "what": what, "id": i + 1, "cls": type(e).__name__})
        raise Raised()


def session(rng):
    ev = [{"ev": "reset"}]
    objs, kinds = [], []
    for _ in range(rng.randint(2, 4)):
        o = make(rng)
        if o is None:
            continue
        try:
            a = abstract(o, True)
        except (OutOfDomain, Unsnappable):
            continue
        objs.append(o)
        kinds.append(a["k"])
        ev.append({"ev": "create", "obj": a})
    if len(objs) < 2:
        return None
    derived = 0
    for _ in range(rng.randint(3, 9)):
        i, j = rng.randrange(len(objs)), rng.randrange(len(objs))
        r = rng.random()
        try:
            if r < 0.12 and derived < 2 and len(objs) < 7 and kinds[i] in ("Polygon", "Point", "Segment", "HalfLine", "Polyhedron"):
                # a new live object derived from a live one: -polygon, or the kept return value of move (owning kinds only)
                derived += 1
                if kinds[i] == "Polygon" and rng.random() < 0.5:
                    new = guarded(ev, "neg", i, lambda: -objs[i])
                    ev.append({"ev": "neg", "id": i + 1, "obj": abstract(new, False)})
                else:
                    d = [rng.randint(-1, 1), rng.randint(-1, 1), rng.randint(-1, 1)]
                    new = guarded(ev, "move", i, lambda: objs[i].move(Vector(*[float(x) for x in d])))
                    ev.append({"ev": "movekeep", "id": i + 1, "v": [x * recorder.SCALE for x in d], "post": abstract(objs[i], False), "ret": abstract(new, False)})
                objs.append(new)
                kinds.append(kinds[i])
            elif r < 0.3:
                d = [rng.randint(-1, 1), rng.randint(-1, 1), rng.randint(-1, 1)]
                ret = guarded(ev, "move", i, lambda: objs[i].move(Vector(*[float(x) for x in d])))
                ev.append({"ev": "move", "id": i + 1, "v": [x * recorder.SCALE for x in d], "post": abstract(objs[i], False), "ret": abstract(ret, False)})
            elif r < 0.4 and len(objs) < 6:
                c = guarded(ev, "copy", i, lambda: copy.deepcopy(objs[i]))
                objs.append(c)
                kinds.append(kinds[i])
                ev.append({"ev": "copy", "id": i + 1, "obj": abstract(c, False)})
            elif r < 0.7:
                try:
                    res = abstract(intersection(objs[i], objs[j]), False)
                except (OutOfDomain, Unsnappable):
                    raise
                except Exception as e:  # noqa: BLE001
                    res = {"k": "Exception", "cls": type(e).__name__}
                ev.append({"ev": "query", "op": "intersection", "i": i + 1, "j": j + 1, "res": res})
            elif r < 0.82:
                if (kinds[i], kinds[j]) in MEM:
                    try:
                        val = objs[i] in objs[j]
                    except Exception as e:  # noqa: BLE001
                        val = e
                    ev.append({"ev": "query", "op": "in", "i": i + 1, "j": j + 1, "res": {"k": "Bool", "b": val} if isinstance(val, bool) else {"k": "Other"}})
            elif r < 0.92:
                if frozenset((kinds[i], kinds[j])) in DIST:
                    try:
                        res = {"k": "Num2", "q": rat(float(distance(objs[i], objs[j])) ** 2, 2)}
                    except (OutOfDomain, Unsnappable):
                        raise
                    except Exception as e:  # noqa: BLE001
                        res = {"k": "Exception", "cls": type(e).__name__}
                    ev.append({"ev": "query", "op": "distance", "i": i + 1, "j": j + 1, "res": res})
            else:
                if kinds[i] == kinds[j]:
                    try:
                        res = {"k": "Bool", "b": bool(objs[i] == objs[j])}
                    except Exception as e:  # noqa: BLE001
                        res = {"k": "Exception", "cls": type(e).__name__}
                    ev.append({"ev": "query", "op": "eq", "i": i + 1, "j": j + 1, "res": res})
        except (OutOfDomain, Unsnappable):
            return None                      # a result outside the representable domain: drop the whole session (counted by the caller)
        except Raised:
            return ev                        # the session ends at the logged exception
    try:
        for n, o in enumerate(objs):
            ev.append({"ev": "snap", "id": n + 1, "obj": abstract(o, False)})
    except (OutOfDomain, Unsnappable):
        return None
    return ev


def main(seed, nsessions, out):
    rng = random.Random(seed)
    sessions, dropped = [], 0
    for _ in range(nsessions):
        s = session(rng)
        if s is None:
            dropped += 1
        else:
            sessions.append(s)
    with open(out, "w") as f:
        json.dump(sessions, f)
    print(json.dumps({"sessions": len(sessions), "dropped": dropped, "events": sum(len(s) for s in sessions)}))


if __name__ == "__main__":
    main(int(sys.argv[1]), int(sys.argv[2]), sys.argv[3])
