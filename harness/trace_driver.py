"""Independent Python-driven sessions on the real library under the recorder (no TLC involvement in choosing them):
random interleavings of constructions, moves, membership / intersection / distance / measure queries and deep copies on
objects of all seven kinds with small quarter-lattice coordinates."""
import copy
import json
import random
import sys

import recorder

recorder.install()
from Geometry3D import *  # noqa: E402,F401,F403
import logging  # noqa: E402

logging.disable(logging.CRITICAL)


def q(rng, lo=-8, hi=8):
    return rng.randint(lo, hi) / 4.0 if rng.random() < 0.3 else float(rng.randint(lo // 4, hi // 4))


def pt(rng):
    return Point(q(rng), q(rng), q(rng))


def vec(rng):
    while True:
        v = Vector(float(rng.randint(-2, 2)), float(rng.randint(-2, 2)), float(rng.randint(-2, 2)))
        if v.length() > 0:
            return v


def make(rng):
    k = rng.choice(("Point", "Line", "HalfLine", "Segment", "Plane", "Polygon", "Polyhedron"))
    try:
        if k == "Point":
            return pt(rng)
        if k == "Line":
            return Line(pt(rng), vec(rng))
        if k == "HalfLine":
            return HalfLine(pt(rng), vec(rng))
        if k == "Segment":
            return Segment(pt(rng), vec(rng))
        if k == "Plane":
            return Plane(pt(rng), vec(rng))
        if k == "Polygon":
            o = Point(float(rng.randint(-1, 1)), float(rng.randint(-1, 1)), float(rng.randint(-1, 1)))
            a, b = vec(rng), vec(rng)
            return Parallelogram(o, a, b)
        o = Point(float(rng.randint(-1, 1)), float(rng.randint(-1, 1)), float(rng.randint(-1, 1)))
        return Parallelepiped(o, vec(rng), vec(rng), vec(rng))
    except Exception:  # noqa: BLE001  (degenerate random input)
        return None


def main(seed, nsessions, out):
    rng = random.Random(seed)
    for _ in range(nsessions):
        objs = [o for o in (make(rng) for _ in range(4)) if o is not None]
        if len(objs) < 2:
            continue
        for _ in range(rng.randint(4, 10)):
            a, b = rng.choice(objs), rng.choice(objs)
            act = rng.random()
            try:
                if act < 0.3:
                    a.move(Vector(float(rng.randint(-1, 1)), float(rng.randint(-1, 1)), float(rng.randint(-1, 1))))
                elif act < 0.6:
                    intersection(a, b)
                elif act < 0.75:
                    p = pt(rng) if rng.random() < 0.5 else (a if isinstance(a, Point) else pt(rng))
                    if not isinstance(b, Point):
                        p in b  # noqa: B015
                elif act < 0.82:
                    distance(a, b)
                elif act < 0.88:
                    rng.choice((angle, parallel, orthogonal))(a, b)
                elif act < 0.93:
                    objs.append(copy.deepcopy(a))
                else:
                    if isinstance(a, Segment):
                        a.length()
                    elif isinstance(a, ConvexPolyhedron):
                        a.volume()
                    elif isinstance(a, ConvexPolygon):
                        a.area()
            except Exception:  # noqa: BLE001  (unsupported pairs raise; they are logged with their exception)
                pass
    # angle / parallel / orthogonal on Line / Plane pairs whose directions are deliberately related (equal up to a factor,
    # perpendicular, generic), function and method forms
    for _ in range(nsessions * 3):
        u = vec(rng)
        rel = rng.random()
        if rel < 0.3:
            v = u * float(rng.choice((1, 2, -1, -3)))
        elif rel < 0.6:
            w = vec(rng)
            v = u.cross(w)
            if v.length() == 0:
                v = w
        else:
            v = vec(rng)
        mk = lambda d: Line(pt(rng), d) if rng.random() < 0.5 else Plane(pt(rng), d)
        try:
            a, b = mk(u), mk(v)
            for f in (angle, parallel, orthogonal):
                if rng.random() < 0.7:
                    f(a, b)
                else:
                    getattr(a, f.__name__)(b)
        except Exception:  # noqa: BLE001
            pass
    # the solver on small integer / Fraction systems (exact arithmetic): truthiness, varargs and the returned tuples
    from fractions import Fraction
    for _ in range(nsessions * 2):
        rows, cols = rng.choice(((1, 3), (2, 3), (1, 4), (2, 4), (3, 3), (3, 4)))
        m = [[Fraction(rng.randint(-2, 2)) for _ in range(cols)] for _ in range(rows)]
        if rng.random() < 0.3:
            for r in m:
                r[0] = Fraction(0)
        try:
            sol = solve(m)
            if sol:
                for _k in range(2):
                    sol(*[Fraction(rng.randint(-4, 4), rng.choice((1, 2, 3))) for _ in range(sol.varargs)])
        except Exception:  # noqa: BLE001
            pass
    stats = recorder.dump(out)
    print(json.dumps(stats))


if __name__ == "__main__":
    main(int(sys.argv[1]), int(sys.argv[2]), sys.argv[3])
