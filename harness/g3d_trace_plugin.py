"""pytest plugin: run the repository's own unit tests under the recorder (code -> spec trace source)."""
import os

import recorder


def pytest_configure(config):
    recorder.install()


def pytest_sessionfinish(session, exitstatus):
    out = os.environ.get("G3D_TRACE_OUT")
    if out:
        stats = recorder.dump(out)
        with open(out + ".stats", "w") as f:
            import json
            json.dump(stats, f)
