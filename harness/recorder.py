"""Code -> spec: record top-level public calls of the real library as events that TLC validates
against the specification (spec/G3DTrace.tla).

The wrappers are installed from OUTSIDE the source tree (class-level / module-level patching,
no source hook), only when G3D_VERIF=1 or when called explicitly.  A depth counter logs
top-level calls only; logging happens in `finally`, also on the error path.

Floats become exact rationals with a certificate, never by guessing: a float c is logged as
p/q iff q <= 10^4 and |c - p/q| <= 2e-9 (two distinct such rationals differ by >= 1e-8, so
at most one qualifies); otherwise the event is dropped and counted as `unsnappable`.  Events
whose operands are outside the small integer domain TLC can evaluate in 32 bits (after
multiplying the whole event by SCALE) are counted as `out_of_domain`, not guessed at.
"""
import functools
import json
import math
import os
import sys
from fractions import Fraction as Fr

REPO = os.environ.get("G3D_REPO", "/repo")
if REPO not in sys.path:
    sys.path.insert(0, REPO)

SCALE = 4            # operand coordinates must be multiples of 1/4 ...
LIMIT = 16           # ... with |x| * SCALE <= LIMIT * SCALE / 2  (|x| <= 8)

EVENTS = []
STATS = {"calls": 0, "logged": 0, "unsnappable": 0, "out_of_domain": 0, "unsupported": 0, "nested": 0}
_depth = 0
_installed = False


class Unsnappable(Exception):
    pass


class OutOfDomain(Exception):
    pass


def snap(c, maxden=10 ** 4):
    if isinstance(c, bool):
        raise Unsnappable()
    if isinstance(c, int):
        return Fr(c)
    if isinstance(c, Fr):
        if c.denominator > maxden:
            raise Unsnappable()
        return c
    c = float(c)
    if not math.isfinite(c):
        raise Unsnappable()
    f = Fr(c).limit_denominator(maxden)
    if abs(float(f) - c) <= 2e-9:
        return f
    raise Unsnappable()


def hp(coords, operand):
    """homogeneous integer point <<X,Y,Z,W>> of three numbers, in units of 1/SCALE"""
    fs = [snap(c) * SCALE for c in coords]
    if operand:
        if any(f.denominator != 1 or abs(f) > LIMIT * SCALE // 2 for f in fs):
            raise OutOfDomain()
    w = 1
    for f in fs:
        w = w * f.denominator // math.gcd(w, f.denominator)
    if w > 10 ** 4:
        raise Unsnappable()
    return [int(f * w) for f in fs] + [w]


def direction(v, operand):
    """small primitive integer vector parallel to the float vector v (certificate: tiny cross product)"""
    v = [float(x) for x in v]
    n = math.sqrt(sum(x * x for x in v))
    if n == 0:
        raise Unsnappable()
    big = max(abs(x) for x in v)
    for m in range(1, 65):
        cand = [round(x / big * m) for x in v]
        if all(abs(x / big * m - c) <= 1e-9 * m for x, c in zip(v, cand)) and any(cand):
            g = 0
            for c in cand:
                g = math.gcd(g, abs(c))
            return [c // g for c in cand]
    raise OutOfDomain() if operand else Unsnappable()


def lib():
    import Geometry3D as G
    return G


def abstract(x, operand):
    """abstract snapshot of a library value in the specification's object format"""
    G = lib()
    if x is None:
        return {"k": "None"}
    if isinstance(x, bool):
        return {"k": "Bool", "b": x}
    if isinstance(x, G.Point):
        return {"k": "Point", "p": hp((x.x, x.y, x.z), operand)}
    if isinstance(x, G.Segment):
        return {"k": "Segment", "a": hp(x.start_point, operand), "b": hp(x.end_point, operand)}
    if isinstance(x, G.HalfLine):
        return {"k": "HalfLine", "p": hp(x.point, operand), "u": direction(x.vector, operand)}
    if isinstance(x, G.Line):
        return {"k": "Line", "p": hp(x.sv, operand), "u": direction(x.dv, operand)}
    if isinstance(x, G.Plane):
        return {"k": "Plane", "p": hp(x.p, operand), "n": direction(x.n, operand)}
    if isinstance(x, G.ConvexPolygon):
        return {"k": "Polygon", "vs": [hp(p, operand) for p in x.points]}
    if isinstance(x, G.ConvexPolyhedron):
        return {"k": "Polyhedron", "vs": [hp(p, operand) for p in x.point_set]}
    if isinstance(x, G.Vector):
        fs = [snap(c) * SCALE for c in x]
        if any(f.denominator != 1 or abs(f) > LIMIT * SCALE for f in fs):
            raise OutOfDomain()
        return {"k": "Vector", "v": [int(f) for f in fs]}
    raise OutOfDomain()


def rat(x, power):
    """a scalar result (length^power in real units) as a rational in spec units (1/SCALE)"""
    f = snap(x) * (SCALE ** power)
    return [f.numerator, f.denominator]


def log_event(ev):
    EVENTS.append(ev)
    STATS["logged"] += 1


def record(op, args, fn, post=None):
    """run fn() as a top-level call and log one event (also on the error path)"""
    global _depth
    if _depth > 0:
        STATS["nested"] += 1
        return fn()
    _depth += 1
    STATS["calls"] += 1
    pre, err = None, None
    try:
        try:
            pre = [abstract(a, True) for a in args]
        except (Unsnappable, OutOfDomain, TypeError, AttributeError) as e:
            err = e
        result, exc = None, None
        try:
            result = fn()
            return result
        except Exception as e:  # noqa: BLE001
            exc = e
            raise
        finally:
            if err is None:
                try:
                    ev = {"op": op, "args": pre}
                    if exc is not None:
                        ev["res"] = {"k": "Exception", "cls": type(exc).__name__}
                    elif post is not None:
                        ev.update(post(result))
                    else:
                        ev["res"] = abstract(result, False)
                    log_event(ev)
                except Unsnappable:
                    STATS["unsnappable"] += 1
                except (OutOfDomain, TypeError, AttributeError):
                    STATS["out_of_domain"] += 1
            elif isinstance(err, Unsnappable):
                STATS["unsnappable"] += 1
            else:
                STATS["out_of_domain"] += 1
    finally:
        _depth -= 1


def install():
    """wrap the public API (idempotent)"""
    global _installed
    if _installed:
        return
    _installed = True
    G = lib()
    mi = sys.modules["Geometry3D.calc.intersection"]
    md = sys.modules["Geometry3D.calc.distance"]

    orig_inter = mi.intersection
    first = {"h": None}

    def wrap_handler(name, fn):
        @functools.wraps(fn)
        def handler(*args):
            if _depth == 1 and first["h"] is None:
                first["h"] = name.lower()
            return fn(*args)
        return handler

    for name in [n for n in dir(mi) if n.startswith("inter_") and callable(getattr(mi, n))]:
        setattr(mi, name, wrap_handler(name, getattr(mi, name)))

    @functools.wraps(orig_inter)
    def intersection(a, b):
        if _depth == 0:
            first["h"] = None

        def post(r):
            d = {"res": abstract(r, False)}
            if first["h"] is not None:
                d["h"] = first["h"]
            return d
        return record("intersection", (a, b), lambda: orig_inter(a, b), post=post)

    orig_dist = md.distance

    @functools.wraps(orig_dist)
    def distance(a, b):
        return record("distance", (a, b), lambda: orig_dist(a, b), post=lambda r: {"res": {"k": "Num2", "q": rat(float(r) ** 2, 2)}})

    for mod in (mi, G, sys.modules.get("Geometry3D.calc"), sys.modules.get("Geometry3D.calc.aux_calc"),
                sys.modules.get("Geometry3D.calc.volume"), md):
        if mod is not None and getattr(mod, "intersection", None) is orig_inter:
            mod.intersection = intersection
        if mod is not None and getattr(mod, "distance", None) is orig_dist:
            mod.distance = distance

    # angle / parallel / orthogonal (module-level functions of calc.angle; the angle is logged as the certified rational cos^2)
    ma = sys.modules["Geometry3D.calc.angle"]
    for name in ("angle", "parallel", "orthogonal"):
        orig = getattr(ma, name)

        def make(name=name, orig=orig):
            @functools.wraps(orig)
            def wrapped(a, b):
                if name == "angle":
                    post = lambda r: {"res": {"k": "Cos2", "q": rat(math.cos(float(r)) ** 2, 0)}}
                else:
                    post = lambda r: {"res": {"k": "Bool", "b": r} if isinstance(r, bool) else {"k": "Other"}}
                return record(name, (a, b), lambda: orig(a, b), post=post)
            return wrapped
        w = make()
        for mod in (ma, G, sys.modules.get("Geometry3D.calc"), sys.modules.get("Geometry3D.calc.distance"),
                    sys.modules.get("Geometry3D.calc.intersection"), sys.modules.get("Geometry3D.geometry.body")):
            if mod is not None and getattr(mod, name, None) is orig:
                setattr(mod, name, w)

    # the method forms a.intersection(b), a.distance(b), a.angle(b), a.parallel(b), a.orthogonal(b) are top-level calls of their own
    gb = sys.modules["Geometry3D.geometry.body"].GeoBody
    for name in ("intersection", "distance", "angle", "parallel", "orthogonal"):
        om = getattr(gb, name)

        def make_method(name=name, om=om):
            @functools.wraps(om)
            def method(self, other):
                if name == "intersection":
                    post = lambda r: {"res": abstract(r, False)}
                elif name == "distance":
                    post = lambda r: {"res": {"k": "Num2", "q": rat(float(r) ** 2, 2)}}
                elif name == "angle":
                    post = lambda r: {"res": {"k": "Cos2", "q": rat(math.cos(float(r)) ** 2, 0)}}
                else:
                    post = lambda r: {"res": {"k": "Bool", "b": r} if isinstance(r, bool) else {"k": "Other"}}
                return record(name, (self, other), lambda: om(self, other), post=post)
            return method
        setattr(gb, name, make_method())

    oa = G.ConvexPolygon.area

    def area(self):
        return record("area", (self,), lambda: oa(self), post=lambda r: {"res": {"k": "Num2", "q": rat(float(r) ** 2, 4)}})
    G.ConvexPolygon.area = area

    for cls in (G.Line, G.Plane, G.Segment, G.HalfLine, G.ConvexPolygon, G.ConvexPolyhedron):
        oc = cls.__contains__

        def contains(self, other, _oc=oc):
            return record("in", (other, self), lambda: _oc(self, other),
                          post=lambda r: {"res": {"k": "Bool", "b": r} if isinstance(r, bool) else {"k": "Other"}})
        cls.__contains__ = contains

    for cls in (G.Point, G.Line, G.Plane, G.Segment, G.HalfLine, G.ConvexPolygon, G.ConvexPolyhedron):
        om = cls.move

        def move(self, v, _om=om):
            def post(ret):
                d = {"post": abstract(self, False), "ret": abstract(ret, False)}
                if hasattr(self, "line") and isinstance(self, (G.Segment, G.HalfLine)):
                    d["line"] = abstract(self.line, False)
                return d
            return record("move", (self, v), lambda: _om(self, v), post=post)
        cls.move = move

    ov = G.ConvexPolyhedron.volume

    def volume(self):
        return record("volume", (self,), lambda: ov(self), post=lambda r: {"res": {"k": "Num", "q": rat(r, 3)}})
    G.ConvexPolyhedron.volume = volume
    ol = G.Segment.length

    def length(self):
        return record("length", (self,), lambda: ol(self), post=lambda r: {"res": {"k": "Num2", "q": rat(float(r) ** 2, 2)}})
    G.Segment.length = length
    install_solver()


def install_solver():
    """record top-level solve() calls and calls of the returned Solution (integer / Fraction systems, exact arithmetic)"""
    G = lib()
    ms = sys.modules["Geometry3D.utils.solver"]
    orig = ms.solve

    def as_int_matrix(m):
        rows = []
        for row in m:
            r = []
            for x in row:
                f = Fr(x) if isinstance(x, (int, Fr)) else None
                if f is None or f.denominator != 1 or abs(f) > 50:
                    raise OutOfDomain()
                r.append(int(f))
            rows.append(r)
        if not (1 <= len(rows) <= 3 and 3 <= len(rows[0]) <= 4 and all(len(r) == len(rows[0]) for r in rows)):
            raise OutOfDomain()
        return rows

    @functools.wraps(orig)
    def solve(matrix):
        global _depth
        if _depth > 0:
            return orig(matrix)
        try:
            m = as_int_matrix(matrix)
        except (OutOfDomain, TypeError):
            STATS["out_of_domain"] += 1
            return orig(matrix)
        _depth += 1
        try:
            sol = orig([[Fr(x) for x in row] for row in m] if all(isinstance(x, (int, Fr)) for row in matrix for x in row) else matrix)
        finally:
            _depth -= 1
        STATS["calls"] += 1
        log_event({"op": "solve", "m": m, "truthy": bool(sol), "varargs": sol.varargs})
        sol._g3d_matrix = m
        return sol

    oc = ms.Solution.__call__

    def call(self, *v):
        m = getattr(self, "_g3d_matrix", None)
        if m is None or _depth > 0:
            return oc(self, *v)
        res, exc = None, None
        try:
            res = oc(self, *v)
            return res
        except Exception as e:  # noqa: BLE001
            exc = e
            raise
        finally:
            try:
                ev = {"op": "solution_call", "m": m, "params": [[Fr(x).numerator, Fr(x).denominator] for x in v]}
                if exc is not None:
                    ev["exc"] = type(exc).__name__
                    ev["x"] = []
                else:
                    ev["x"] = [[Fr(x).numerator, Fr(x).denominator] for x in res]
                if all(abs(n) < 10 ** 6 and 0 < d < 10 ** 6 for n, d in ev["x"] + ev["params"]):
                    log_event(ev)
                else:
                    STATS["out_of_domain"] += 1
            except (TypeError, ValueError):
                STATS["unsnappable"] += 1
    ms.Solution.__call__ = call
    for mod in (ms, G, sys.modules.get("Geometry3D.utils")):
        if mod is not None and getattr(mod, "solve", None) is orig:
            mod.solve = solve


def dump(path):
    with open(path, "w") as f:
        json.dump(EVENTS, f)
    return dict(STATS)


def reset():
    del EVENTS[:]
    for k in STATS:
        STATS[k] = 0


if os.environ.get("G3D_VERIF") == "1" and os.environ.get("G3D_RECORD_AUTO") == "1":
    install()
