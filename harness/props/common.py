"""Shared replay steps for the function-shaped properties."""
import geom
from geom import G, R, observe, call, build, IDENT, random_pose
import admit

KNAME = {"Polygon": "ConvexPolygon", "Polyhedron": "ConvexPolyhedron"}


def kinds(*objs):
    return [o["k"] for o in objs]


def all_points(*objs):
    pts = []
    for o in objs:
        k = o.get("k")
        if k in ("Point", "Line", "HalfLine", "Plane"):
            pts.append(o["p"])
        elif k == "Segment":
            pts += [o["a"], o["b"]]
        elif k == "Polygon":
            pts += list(o["cyc"])
        elif k == "Polyhedron":
            pts += list(o["vs"])
    return pts


def integer_pose(rng, pts, s):
    """catalogue units stay as they are (scale 1) and the box is pushed by an integer translation to negative coordinates (-2, -1, 0, ...): many hashed values then
    collide (CPython: hash(-1) == hash(-2)), which exercises code that confuses equal hashes with equal objects"""
    from fractions import Fraction as Fr
    M = rng.choice(geom.SIGNED_PERMS)
    p0 = geom.Pose(s=s, k=Fr(1), M=M)
    lo = [min(p0.pt(P)[i] for P in pts) for i in range(3)] if pts else [0, 0, 0]
    t = tuple(Fr(rng.choice((-2, -2, -1, 0))) - (lo[i] - (lo[i] % 1)) for i in range(3))
    return geom.Pose(s=s, k=Fr(1), M=M, t=t)


def p5_pose(rng, pts, s=1):
    """a 3-4-5 rotation about a coordinate axis: axis-aligned faces get normals with exactly one zero component (not axis-aligned)"""
    from fractions import Fraction as Fr
    for _ in range(10):
        M = geom.matmul(rng.choice(geom.SIGNED_PERMS), geom.P5)
        k = rng.choice((Fr(1, 2), Fr(1, 4), Fr(1, 4)))
        t = tuple(Fr(rng.randint(-8, 8), 4) for _ in range(3))
        p = geom.Pose(s=s, k=k, M=M, t=t, norm=5)
        if p.maxabs(pts) <= 16:
            return p
    return geom.Pose(s=s, k=Fr(1, 8), M=geom.matmul(rng.choice(geom.SIGNED_PERMS), geom.P5), norm=5)


def poses_for(case_objs, rng, n_extra, s=1):
    base = geom.Pose(s=s)
    out = [base]
    pts = all_points(*case_objs)
    for _ in range(n_extra):
        if rng.random() < 0.2:
            p = integer_pose(rng, pts, s)
            out.append(p if p.maxabs(pts) <= 16 else random_pose(rng, s=s, pts=pts))
        else:
            out.append(random_pose(rng, s=s, pts=pts))
    return out


def warm_up(x):
    """queries that an implementation might memoise (hash, edges, measures, a self-intersection)"""
    for f in (lambda: hash(x), lambda: repr(x), lambda: x == x, lambda: G.intersection(x, x),
              lambda: x.length(), lambda: x.area(), lambda: x.volume()):
        try:
            f()
        except Exception:  # noqa: BLE001
            pass


def build_variant(o, pose, num, rng, p=0.2):
    """the library object for `o` under `pose`; with probability p it is first built displaced by a lattice vector, queried
    (so that anything memoised is memoised at the wrong place) and then moved IN PLACE into position: an object obtained
    that way is as good an operand as a freshly constructed one"""
    if o.get("k") in (None, "None", "Vector") or rng.random() >= p:
        return build(o, pose, num)
    from fractions import Fraction as Fr
    d = (0, 0, 0)
    while d == (0, 0, 0):
        d = (rng.randint(-2, 2), rng.randint(-1, 1), rng.randint(-2, 2))
    shifted = geom.Pose(s=pose.s, k=pose.k, M=pose.M, t=tuple(pose.t[i] - d[i] for i in range(3)), norm=pose.norm)
    x = build(o, shifted, num)
    warm_up(x)
    x.move(geom.Vector(*[float(c) if num != "int" else int(c) for c in d]))
    return x


def num_for(rng, pose, objs):
    """numeric type of the coordinates: float, int where integral, and Fraction (exact rationals are rationals)"""
    return rng.choice(("float", "float", "float", "int", "int", "frac"))


def mismatch(clause, sig, detail, expected, observed, pose, objs):
    """build a mismatch record unless the admission filter says the case is outside the quantifier"""
    if not admit.hash_boundary_free(list(objs) + ([expected] if isinstance(expected, dict) else []), pose):
        return None, "hash-boundary"
    return {"clause": clause, "sig": sig, "detail": detail, "expected": expected, "observed": observed,
            "pose": pose.describe()}, None


def obs_kind(obs):
    if obs["k"] == "Exception":
        return "raise:" + obs["cls"] + "@" + obs["site"]
    return obs["k"]


def check_intersection(case, rng, n_poses, clause_prefix, forms=("func",)):
    """replay one `intersection` case: a, b, exp (+ cls) under several poses; returns result dict"""
    a, b, exp = case["a"], case["b"], case["exp"]
    s = case.get("s", 1)
    out = {"mism": [], "skipped": {}, "calls": 0,
           "cls": "%s|%s|%s" % (a["k"], b["k"], exp["k"]), "nontrivial": exp["k"] != "None"}
    for pose in poses_for((a, b, exp), rng, n_poses, s):
        num = num_for(rng, pose, (a, b))
        la, lb = build_variant(a, pose, num, rng), build_variant(b, pose, num, rng)
        for form in forms:
            if form == "func":
                val, exc = call(G.intersection, la, lb)
            elif form == "method":
                if a["k"] == "Point":
                    continue
                val, exc = call(la.intersection, lb)
            elif form == "swapped":
                val, exc = call(G.intersection, lb, la)
            out["calls"] += 1
            obs = exc or observe(val)
            why = R(obs, exp, pose)
            if why:
                sig = {"op": "intersection", "form": form, "kinds": [a["k"], b["k"]], "exp": exp["k"], "obs": obs_kind(obs)}
                m, skip = mismatch(clause_prefix + "." + form, sig, why, exp, obs, pose, (a, b))
                if m:
                    out["mism"].append(m)
                else:
                    out["skipped"][skip] = out["skipped"].get(skip, 0) + 1
    if not out["mism"]:
        out["sample"] = {"a": a, "b": b, "expected": exp, "call": "intersection(a, b)", "poses": n_poses + 1}
    return out


# ------------------------------------------------------------------------------------------
# measures: the specification emits squared lengths, area radicands and a rational volume
from decimal import Decimal as _D
from fractions import Fraction as _Fr


def _sqrt(fr):
    return (_D(fr.numerator) / _D(fr.denominator)).sqrt()


def expected_measures(m, pose):
    """float values of the symbolic measures in `m` under the pose; missing keys = not evaluated by TLC (32-bit budget)"""
    lam = pose.lam
    out = {}
    if m.get("len2"):
        out["length"] = float(sum(_sqrt(_Fr(q[0], q[1])) for q in m["len2"]) * _D(lam.numerator) / _D(lam.denominator))
    a = m.get("area")
    if a and a.get("den"):
        l2 = lam * lam
        out["area"] = float(sum(_D(n).sqrt() for n in a["rs"]) / _D(a["den"]) * _D(l2.numerator) / _D(l2.denominator))
    v = m.get("vol")
    if v and v[1]:
        out["volume"] = float(abs(_Fr(v[0], v[1])) * lam ** 3)
    return out


def check_measures(lib, m, pose, rel=1e-9):
    """compare lib.length()/area()/volume() with the specification's measures; returns [(name, why, observed)]"""
    bad = []
    n = 0
    for name, want in expected_measures(m, pose).items():
        if not hasattr(lib, name):
            continue
        val, exc = call(getattr(lib, name))
        n += 1
        if exc is not None:
            bad.append((name, "raised %s at %s" % (exc["cls"], exc["site"]), exc))
        elif not (abs(float(val) - want) <= rel * max(abs(want), 1e-300)):
            bad.append((name, "%s %r != exact %r" % (name, float(val), want), {"k": "Num", "x": float(val)}))
    return bad, n
