"""X01 - behaviour outside the twenty listed properties (not in MANIFEST; the specification keeps growing):
projection helpers, points_in_a_line, eq_with_normal / hash_with_normal, the half-line hit helper."""
import math
from decimal import Decimal

import engine
from geom import G, call, build, mk_point, match_points, fl3, IDENT, Vector, ConvexPolygon
from props import common


def run(res, pool, tier, seed):
    engine.run_jobs(res, [dict(module="MC_Misc.tla", tag="misc", invariants=["ProjSane", "HitsSane", "Emit"], batch=100, timeout=1500,
                               constants=dict(SEED=seed % 1000, NSHARD=5 if tier == "quick" else 1))], pool)


def replay_case(case, tag, rng, tier):
    out = {"mism": [], "skipped": {}, "calls": 0, "nontrivial": True, "cls": case["op"]}

    def bad(clause, why):
        m, _ = common.mismatch(clause, {"op": case["op"]}, why, case, {"k": "-"}, IDENT, [])
        out["mism"].append(m)

    op = case["op"]
    if op == "proj":
        v1, v2 = Vector(*[float(x) for x in case["v1"]]), Vector(*[float(x) for x in case["v2"]])
        rel, e1 = call(G.get_relative_projection_length, v1, v2)
        ln, e2 = call(G.get_projection_length, v1, v2)
        out["calls"] += 2
        want_rel = case["rel"][0] / case["rel"][1]
        want_len = case["sgn"] * math.sqrt(case["len2"][0] / case["len2"][1])
        if e1 is not None or abs(rel - want_rel) > 1e-9 * max(1, abs(want_rel)):
            bad("X01.relative_projection", "get_relative_projection_length = %r, exact %r" % (rel, want_rel))
        if e2 is not None or abs(ln - want_len) > 1e-9 * max(1, abs(want_len)):
            bad("X01.projection", "get_projection_length = %r, exact %r" % (ln, want_len))
    elif op == "collinear":
        pts = [mk_point(P, IDENT, "float") for P in case["pts"]]
        val, exc = call(G.points_in_a_line, pts)
        out["calls"] += 1
        if exc is not None or val is not case["exp"]:
            bad("X01.points_in_a_line", "points_in_a_line = %r, exact %r" % (exc["cls"] if exc else val, case["exp"]))
    elif op == "eq_with_normal":
        pose = common.poses_for([], rng, 1, 2)[0]
        a = ConvexPolygon(tuple(mk_point(P, pose, "float") for P in case["a"]))
        b = ConvexPolygon(tuple(mk_point(P, pose, "float") for P in case["b"]))
        val, exc = call(a.eq_with_normal, b)
        out["calls"] += 1
        if exc is not None or val is not case["exp"]:
            bad("X01.eq_with_normal", "eq_with_normal = %r, same orientation: %r" % (exc["cls"] if exc else val, case["exp"]))
        elif (a.hash_with_normal() == b.hash_with_normal()) is not case["exp"]:
            bad("X01.hash_with_normal", "hash_with_normal equality is %r, same orientation: %r" % (not case["exp"], case["exp"]))
    elif op == "halfline_hits":
        pose = common.poses_for((case["h"], case["body"]), rng, 1, 2)[rng.randint(0, 1)]
        h, K = build(case["h"], pose, "float"), build(case["body"], pose, "float")
        val, exc = call(G.calc.get_halfline_convexpolyhedron_intersection_point_set, h, K)
        out["calls"] += 1
        why = ("raised " + exc["cls"]) if exc is not None else match_points([fl3(p) for p in val], [pose.pt(P) for P in case["pts"]])
        if why:
            bad("X01.halfline_hits", "hit set: " + why)
    if not out["mism"]:
        out["sample"] = {k: v for k, v in case.items() if k != "body"}
    return out


def finish(res):
    res.extra["note"] = "not one of the twenty listed properties; no MANIFEST entry"
    return engine.report(res, rule="library behaviour outside the listed properties: projections over the box lattice, collinearity of point triples, "
                                   "orientation-sensitive polygon equality, half-line hit sets; every case non-trivial",
                         assumptions=["TLC/SANY"], invariants_note="ProjSane HitsSane")
