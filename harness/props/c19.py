"""C19 - tolerance is uniform and follows set_eps / set_sig_figures."""
import math

import engine
import geom
from geom import G, R, observe, call, build, mk_point, mk_vector, Point, Vector
from props import common

EXPS = {5, 6, 7, 8, 9, 10, 11, 12}


def run(res, pool, tier, seed):
    if tier == "quick":
        jobs = [dict(module="MC_Config.tla", tag="hist2", spec="CfgSpec", invariants=["CfgInv", "CfgTyped", "PowTen", "EmitHist"],
                     properties=["LastCallDecides"], constants=dict(Exps=EXPS, Mants={1, 2, 5}, MaxLen=2, S=4), batch=12, workers=4)]
    else:
        jobs = [dict(module="MC_Config.tla", tag="hist2", spec="CfgSpec", invariants=["CfgInv", "CfgTyped", "PowTen", "EmitHist"],
                     properties=["LastCallDecides"], constants=dict(Exps=EXPS, Mants={1, 2, 5}, MaxLen=2, S=4), batch=12, workers=4, timeout=7200),
                dict(module="MC_Config.tla", tag="hist3", spec="CfgSpec", invariants=["CfgInv", "CfgTyped", "PowTen", "EmitHist"],
                     properties=["LastCallDecides"], constants=dict(Exps={5, 8, 10, 12}, Mants={1, 5}, MaxLen=3, S=4), batch=12, workers=4,
                     timeout=7200)]
    engine.run_jobs(res, jobs, pool)


def c19_pose(rng, s):
    from fractions import Fraction as Fr
    M = rng.choice(geom.SIGNED_PERMS)
    norm = 1
    if rng.random() < 0.5:
        F, norm = rng.choice(((geom.P3, 3), (geom.P7, 7)))
        M = geom.matmul(M, F)
    k = rng.choice((Fr(1, 2), Fr(1), Fr(2))) if norm == 1 else Fr(1, 2)
    t = tuple(Fr(rng.randint(-4, 4), 4) for _ in range(3))
    return geom.Pose(s=s, k=k, M=M, t=t, norm=norm)


def apply_calls(calls):
    for c in calls:
        if c["f"] == "set_eps":
            G.set_eps(c["mant"] * 10.0 ** (-c["exp"]))
        elif c["f"] == "set_sig_figures":
            G.set_sig_figures(c["n"])
        elif c["f"] == "set_eps_default":
            G.set_eps()
        else:
            G.set_sig_figures()


def replay_case(case, tag, rng, tier):
    calls, cfg, s = case["calls"], case["cfg"], case["s"]
    out = {"mism": [], "skipped": {}, "calls": 0, "nontrivial": (cfg["exp"], cfg["mant"]) != (10, 1),
           "cls": "len=%d|eps=%de-%d" % (len(calls), cfg["mant"], cfg["exp"])}
    pose = c19_pose(rng, s)

    def bad(clause, why, sig, objs=()):
        m, skip = common.mismatch(clause, sig, why, {"cfg": cfg, "calls": calls}, {"k": "-"}, pose, list(objs))
        if m:
            out["mism"].append(m)
        else:
            out["skipped"][skip] = out["skipped"].get(skip, 0) + 1

    try:
        G.set_eps()
        pre = {}
        for n_, o_ in enumerate(case["objs"]):
            if rng.random() < 0.5:
                continue
            x_, e_ = call(build, o_, pose, "float")
            if e_ is None:
                call(hash, x_)                      # hashed / compared under the default tolerance
                call(lambda: x_ == x_)
                pre[n_ + 1] = x_
        eps = cfg["mant"] * 10.0 ** (-cfg["exp"])
        cmps = case["cmp"]
        chosen = rng.sample(cmps, min(len(cmps), 18 if tier == "quick" else 40))
        # a third of the comparisons use a PAIR (original, perturbed twin) that was built, hashed and put into a set under the default
        # tolerance, i.e. before the setters ran: whatever the objects or the containers inside them froze then must not matter
        pre_pairs = {}
        for ci, c in enumerate(chosen):
            o = case["objs"][c["obj"] - 1]
            if o["k"] == "Vector" or rng.random() > 0.34:
                continue
            delta = {"Tiny": eps / 1000.0, "Small": eps / 100.0, "Big": 4.0 * eps}[c["delta"]]
            a0, ea0 = call(build, o, pose, "float")
            geom.PERTURB = {tuple(case["defs"][c["obj"] - 1][c["pt"] - 1]): (c["axis"] - 1, delta)}
            try:
                b0, eb0 = call(build, o, pose, "float")
            finally:
                geom.PERTURB = {}
            if ea0 is None and eb0 is None:
                call(lambda: {a0, b0})
                pre_pairs[ci] = (a0, b0)
        apply_calls(calls)
        ge, gs = G.get_eps(), G.get_sig_figures()
        out["calls"] += 2
        if not (abs(ge - eps) <= 1e-9 * eps) or gs != cfg["sig"]:
            bad("C19.config", "get_eps()=%r get_sig_figures()=%r, specification: eps=%r sig=%r" % (ge, gs, eps, cfg["sig"]),
                {"op": "config", "last": calls[-1]["f"]})
        if gs != round(-math.log10(ge)):
            bad("C19.config_coherent", "get_sig_figures() != round(-log10(get_eps()))", {"op": "config", "last": calls[-1]["f"]})
        for ci, c in enumerate(chosen):
            o = case["objs"][c["obj"] - 1]
            delta = {"Tiny": eps / 1000.0, "Small": eps / 100.0, "Big": 4.0 * eps}[c["delta"]]
            ax = c["axis"] - 1
            a, ea = call(build, o, pose, "float")
            if o["k"] == "Vector":
                v = [float(x) for x in pose.vec(o["v"])]
                v[ax] += delta
                b, eb = Vector(*v), None
            else:
                P = case["defs"][c["obj"] - 1][c["pt"] - 1]
                geom.PERTURB = {tuple(P): (ax, delta)}
                try:
                    b, eb = call(build, o, pose, "float")
                finally:
                    geom.PERTURB = {}
            sig = {"op": "compare", "kind": o["k"], "delta": c["delta"], "eps_exp": cfg["exp"]}
            if ea is not None or eb is not None:
                if eb is not None and ea is None:
                    bad("C19.construct", "an object perturbed by %s (%.1e) could not be constructed: %s" % (c["delta"], delta, eb["cls"]),
                        dict(sig, what="construct"), [o])
                continue
            if ci in pre_pairs:
                a, b = pre_pairs[ci]                # both existed (and were hashed) before the setters were called
                sig["pre_built"] = "pair"
            elif rng.random() < 0.5 and c["obj"] in pre:
                a = pre[c["obj"]]                   # the object that already existed before the setters were called
                sig["pre_built"] = True
            val, exc = call(lambda: a == b)
            out["calls"] += 1
            if exc is not None or bool(val) is not c["same"]:
                bad("C19.eq", "a == b is %r for coordinates differing by %s = %.1e at eps = %.0e" % (exc["cls"] if exc else val, c["delta"], delta, eps),
                    dict(sig, what="eq"), [o])
                continue
            if not c["same"]:
                continue
            ha, hb = call(hash, a)[0], call(hash, b)[0]
            if ha != hb:
                bad("C19.hash", "equal objects (difference %s) hash differently at eps = %.0e" % (c["delta"], eps), dict(sig, what="hash"), [o])
            if o["k"] not in ("Point", "Vector"):
                pts = case["defs"][c["obj"] - 1]
                for P in pts[:4]:
                    p0 = mk_point(P, pose, "float")
                    for holder, nm in ((b, "b"), (a, "a")):
                        val, exc = call(lambda: p0 in holder)
                        out["calls"] += 1
                        if exc is not None or val is not True:
                            bad("C19.in", "a defining point is not `in` the object perturbed by %s at eps = %.0e" % (c["delta"], eps),
                                dict(sig, what="in"), [o])
                            break
                geom.ABS_TOL = 4 * delta
                try:
                    val, exc = call(G.intersection, a, b)
                    out["calls"] += 1
                    why = R(exc or observe(val), o, pose)
                finally:
                    geom.ABS_TOL = 0.0
                if why:
                    bad("C19.intersection", "intersection of objects differing by %s is not the object itself at eps = %.0e: %s" % (c["delta"], eps, why),
                        dict(sig, what="intersection"), [o])
        # general-form planes: a coefficient (also a zero one) perturbed by eps/1000 or eps/100 denotes, within the
        # tolerance and on the bounded catalogue domain, the same plane
        for _ in range(3):
            nrm = rng.choice(((0, 0, 1), (0, 1, 0), (1, 0, 0), (0, 3, 4), (1, 2, 2)))
            d = rng.choice((0.5, -1.25, 2.0))
            i = rng.randrange(3)
            dl = rng.choice((eps / 1000.0, eps / 100.0)) * rng.choice((1, -1))
            co = [float(x) for x in nrm]
            co2 = list(co)
            co2[i] += dl
            ref, e1 = call(G.Plane, co[0], co[1], co[2], d)
            per, e2 = call(G.Plane, co2[0], co2[1], co2[2], d)
            out["calls"] += 2
            sig = {"op": "compare", "kind": "Plane", "delta": "coefficient", "eps_exp": cfg["exp"], "what": "general_form"}
            if e1 is not None or e2 is not None:
                bad("C19.general_form", "Plane(a,b,c,d) with a coefficient perturbed by %.1e raised %s" % (dl, (e1 or e2)["cls"]), sig)
                continue
            for nm, f in (("per == ref", lambda: per == ref), ("ref == per", lambda: ref == per), ("per.p in ref", lambda: per.p in ref),
                          ("ref.p in per", lambda: ref.p in per)):
                val, exc = call(f)
                if exc is not None or val is not True:
                    bad("C19.general_form", "%s is %r for Plane%r vs coefficient %d perturbed by %.1e at eps = %.0e" % (
                        nm, exc["cls"] if exc else val, tuple(co) + (d,), i, dl, eps), sig)
                    break
    finally:
        G.set_eps()
    if not out["mism"]:
        out["sample"] = {"calls": calls, "expected_cfg": cfg, "comparisons_per_history": 30}
    return out


def finish(res):
    return engine.report(
        res, rule="every sequence of set_eps (eps = m*10^-e, m in {1,2,5}, e in 5..12) / set_sig_figures / argument-less resets up to the "
                  "length bound (BFS, each history one state); after each history get_eps/get_sig_figures and a seeded sample of the "
                  "comparison catalogue (13 objects x defining coordinate x {eps/1000, eps/100, 4 eps}) in axis / Pythagorean frames; "
                  "non-trivial = final configuration differs from the default",
        assumptions=["TLC/SANY", "the catalogue keeps hashed quantities away from decimal rounding boundaries (quantifier text)",
                     "relation R with tolerance widened to 4*delta when comparing objects that differ by delta"],
        invariants_note="CfgInv CfgTyped PowTen LastCallDecides on the configuration machine")
