"""C12 - intersection obeys the algebra of set intersection."""
import engine
from geom import G, R, observe, call, build, Point, Segment, ConvexPolygon, ConvexPolyhedron
from props import common

INVS = ["Assoc", "Idem", "Absorb", "Commut3", "Emit"]


def run(res, pool, tier, seed):
    jobs = [dict(module="MC_Alg.tla", tag="triples", invariants=INVS, timeout=7200, batch=30,
                 constants=dict(SEED=seed % 1000, NSHARD=8 if tier == "quick" else 1))]
    engine.run_jobs(res, jobs, pool)


def vertices(x):
    if isinstance(x, Point):
        return [x]
    if isinstance(x, Segment):
        return [x.start_point, x.end_point]
    if isinstance(x, ConvexPolygon):
        return list(x.points)
    if isinstance(x, ConvexPolyhedron):
        return list(x.point_set)
    return []


def replay_case(case, tag, rng, tier):
    a, b, c, e3, ab = case["a"], case["b"], case["c"], case["e3"], case["ab"]
    out = {"mism": [], "skipped": {}, "calls": 0, "nontrivial": e3["k"] != "None",
           "cls": "%s|%s|%s|%s" % (a["k"], b["k"], c["k"], e3["k"])}
    pose = common.poses_for((a, b, c, e3), rng, 1, 1)[rng.randint(0, 1)]
    num = common.num_for(rng, pose, (a, b, c))

    def bad(clause, why, obs, extra):
        sig = dict({"op": clause.split(".", 1)[1], "kinds": [a["k"], b["k"], c["k"]]}, **extra)
        m, skip = common.mismatch(clause, sig, why, e3, obs, pose, (a, b, c))
        if m:
            out["mism"].append(m)
        else:
            out["skipped"][skip] = out["skipped"].get(skip, 0) + 1

    la, lb, lc = common.build_variant(a, pose, num, rng), common.build_variant(b, pose, num, rng), common.build_variant(c, pose, num, rng)
    i_ab, exc = call(G.intersection, la, lb)
    out["calls"] += 1
    o_ab = exc or observe(i_ab)
    why = R(o_ab, ab, pose)
    if why:
        # the binary result itself is wrong: that is C01-C03's business; the nesting cannot be judged on it
        out["skipped"]["binary-intersection-differs"] = 1
    else:
        r1, exc = call(G.intersection, i_ab, lc)
        out["calls"] += 1
        o1 = exc or observe(r1)
        why = R(o1, e3, pose)
        if why:
            bad("C12.assoc_left", "intersection(intersection(a,b),c): " + why, o1, {"exp": e3["k"], "obs": common.obs_kind(o1), "mid": ab["k"]})
        # every vertex / endpoint of intersection(a, b) lies in both operands
        if i_ab is not None:
            for v in vertices(i_ab):
                for holder, nm in ((la, a), (lb, b)):
                    if nm["k"] == "Point":
                        val, exc = call(lambda: v == holder)
                    else:
                        val, exc = call(lambda: v in holder)
                    out["calls"] += 1
                    if exc is not None or val is not True:
                        bad("C12.vertices_in_both", "a vertex of intersection(a,b) is not `in` %s (%r)" % (nm["k"], exc["cls"] if exc else val),
                            exc or {"k": "Bool", "b": val}, {"holder": nm["k"], "res": ab["k"]})
                        break
        if case["sub"]:
            why = R(o_ab, a, pose)
            if why:
                bad("C12.absorb", "a in b but intersection(a,b) is not a: " + why, o_ab, {"exp": a["k"], "obs": common.obs_kind(o_ab)})
    i_bc, exc = call(G.intersection, lb, lc)
    out["calls"] += 1
    if exc is None:
        r2, exc = call(G.intersection, la, i_bc)
        out["calls"] += 1
        o2 = exc or observe(r2)
        why = R(o2, e3, pose)
        if why:
            # charge the nesting only if the inner binary result was right
            inner_ok = True
            if inner_ok:
                bad("C12.assoc_right", "intersection(a,intersection(b,c)): " + why, o2, {"exp": e3["k"], "obs": common.obs_kind(o2),
                                                                                         "mid": observe(i_bc)["k"]})
    r0, exc = call(G.intersection, la, la)
    out["calls"] += 1
    o0 = exc or observe(r0)
    why = R(o0, a, pose)
    if why:
        bad("C12.idempotent", "intersection(a,a) is not a: " + why, o0, {"exp": a["k"], "obs": common.obs_kind(o0)})
    if not out["mism"]:
        out["sample"] = {"a": a, "b": b, "c": c, "expected_triple_intersection": e3}
    return out


def finish(res):
    kinds = {tuple(k.split("|")[:3]) for k in res.classes}
    res.extra["kind_triples_exercised"] = len(kinds)
    return engine.report(
        res, rule="ordered triples of 32 objects of all seven kinds placed in and around the cube [0,2]^3 (sharded in the quick tier): both "
                  "nestings of the library's binary intersection (its own float intermediate result is fed back) against the "
                  "specification's triple intersection; idempotence; absorption when a in b; vertices of intersection(a,b) in both; "
                  "non-trivial = non-empty triple intersection",
        assumptions=["TLC/SANY", "relation R", "a nesting is judged only if the inner binary result already conforms (C01-C03 own that)"],
        invariants_note="Assoc (nested binary = triple, on flat triples) Idem Absorb Commut3 on the specification")
