"""C09 - polygon / polyhedron construction is order-independent and canonical."""
import engine
from geom import R, observe, call, fl3, pclose, dot, match_points, parallel_dir
from props import common, buildcase

INVS = ["PolygonOrderFree", "PolyhedronOrderFree", "MeasuresPositive", "Emit"]


def run(res, pool, tier, seed):
    engine.run_jobs(res, buildcase.jobs(tier, seed, INVS), pool)


def ccw_about(points, n_lib, exp_cyc, n_exp, det):
    """is the observed cycle the convex cycle running counter-clockwise about the object's own normal?
    exp_cyc is counter-clockwise about n_exp in the unposed frame; an improper pose (det < 0) reverses the sense."""
    same = dot(n_lib, n_exp) > 0
    if det < 0:
        same = not same
    seq = exp_cyc if same else exp_cyc[::-1]
    k = len(seq)
    if len(points) != k:
        return False
    for r in range(k):
        if all(pclose(points[i], seq[(i + r) % k]) for i in range(k)):
            return True
    return False


def replay_case(case, tag, rng, tier):
    body = case["body"]
    s = case.get("s", 1)
    out = {"mism": [], "skipped": {}, "calls": 0, "cls": buildcase.cls(case), "nontrivial": True}

    def bad(clause, why, obs, pose, extra=None):
        sig = {"op": "construct", "kind": body["k"], "what": clause.split(".", 1)[1]}
        if extra:
            sig.update(extra)
        m, skip = common.mismatch(clause, sig, why, {"body": body, "form": case["form"]}, obs, pose, (body,))
        if m:
            out["mism"].append(m)
        else:
            out["skipped"][skip] = out["skipped"].get(skip, 0) + 1

    for pose in common.poses_for((body,), rng, 1, s):
        num = common.num_for(rng, pose, (body,))
        val, exc = call(buildcase.construct, case, pose, num, rng)
        out["calls"] += 1
        if exc is not None:
            bad("C09.construct", "constructor raised %s at %s: %s" % (exc["cls"], exc["site"], exc["msg"]), exc, pose,
                {"obs": common.obs_kind(exc)})
            continue
        obs = observe(val)
        if body["k"] == "Polygon":
            exp_cyc = [pose.pt(P) for P in body["cyc"]]
            n_exp = fl3(pose.vec(body["n"]))
            r = match_points(obs["cyc"], exp_cyc)
            if r:
                bad("C09.vertices", "vertex set: " + r, obs, pose)
                continue
            if not parallel_dir(obs["n"], n_exp):
                bad("C09.normal", "plane normal is not the normal of the vertices", obs, pose)
                continue
            if not ccw_about(obs["cyc"], obs["n"], exp_cyc, n_exp, pose.det):
                bad("C09.cycle", ".points is not the convex cycle counter-clockwise about .plane.n", obs, pose)
            neg, exc = call(lambda: -val)
            out["calls"] += 1
            if exc is not None:
                bad("C09.neg", "-polygon raised %s" % exc["cls"], exc, pose)
                continue
            on = observe(neg)
            if match_points(on["cyc"], exp_cyc) or not parallel_dir([-x for x in on["n"]], obs["n"], oriented=True):
                bad("C09.neg", "-polygon must have the same vertices and the opposite normal", on, pose)
            elif not ccw_about(on["cyc"], on["n"], exp_cyc, n_exp, pose.det):
                bad("C09.neg_cycle", "(-polygon).points is not counter-clockwise about its normal", on, pose)
            nn, exc = call(lambda: -(-val))
            out["calls"] += 1
            if exc is not None:
                bad("C09.negneg", "-(-polygon) raised %s" % exc["cls"], exc, pose)
            else:
                onn = observe(nn)
                if match_points(onn["cyc"], exp_cyc) or not parallel_dir(onn["n"], obs["n"], oriented=True):
                    bad("C09.negneg", "-(-p) must match p including the normal", onn, pose)
                # the library's own "matches including the normal" predicate: true for -(-p), false for -p, and p == -p as sets
                for what, other, want in (("negneg", nn, True), ("neg", neg, False)):
                    v, e = call(val.eq_with_normal, other)
                    out["calls"] += 1
                    if e is not None or bool(v) is not want:
                        bad("C09.%s_eq_with_normal" % what, "p.eq_with_normal(%s) is %r, must be %r" % ("-(-p)" if want else "-p", e["cls"] if e else v, want), on, pose)
                v, e = call(lambda: val == neg)
                if e is not None or not v:
                    bad("C09.neg_same_set", "p == -p is %r: -p must denote the same set" % (e["cls"] if e else v), on, pose)
        else:
            why = R(obs, body, pose)
            if why:
                bad("C09.structure", why, obs, pose)
                continue
            exp_faces = [([pose.pt(P) for P in f["cyc"]], fl3(pose.vec(f["n"]))) for f in body["fs"]]
            pts_cyc = {id(pts): pts for pts, _ in exp_faces}
            n_out_unposed = {id(pts): n for pts, n in exp_faces}
            for lf in obs["fs"]:
                for pts, n_out in exp_faces:
                    if match_points(lf["cyc"], pts) is None:
                        if not (dot(lf["n"], n_out) > 0):
                            bad("C09.outward", "a face normal does not point away from the interior", obs, pose)
                        elif not ccw_about(lf["cyc"], lf["n"], pts_cyc[id(pts)], n_out_unposed[id(pts)], pose.det):
                            bad("C09.face_cycle", "a face's vertex cycle is not counter-clockwise about its (outward) normal", obs, pose)
                        break
            v, e, f = len(obs["vs"]), obs["ne"], len(obs["fs"])
            if v - e + f != 2:
                bad("C09.euler", "V - E + F = %d" % (v - e + f), obs, pose)
            c = fl3(val.center_point)
            inside = all(dot(n_out, (c[0] - float(pts[0][0]), c[1] - float(pts[0][1]), c[2] - float(pts[0][2]))) < 0
                         for pts, n_out in exp_faces)
            cin, exc = call(lambda: val.center_point in val)
            out["calls"] += 1
            if not inside or exc is not None or cin is not True:
                bad("C09.centre", "center_point is not inside the body", {"k": "Point", "p": c}, pose)
    if not out["mism"]:
        out["sample"] = {"body": body["k"], "form": case["form"],
                         "vertices": body.get("cyc") or body.get("vs")}
    return out


def finish(res):
    return engine.report(
        res, rule="catalogue bodies and general hulls (k-subsets of {0,1,2}^3 in convex position) presented in TLC-chosen orders: all "
                  "permutations of the vertex list for polygons with <= 5 vertices (affine permutations + reversal above), 3 "
                  "duplication modes; affine permutations of the face list x 6 orientation masks for polyhedra (sharded); 2 poses "
                  "incl. reflections; every presentation counts as non-trivial",
        assumptions=["TLC/SANY", "relation R", "hash-boundary admission filter"],
        invariants_note="PolygonOrderFree (MakePolygon independent of order/duplicates, Neg involutive) PolyhedronOrderFree "
                        "(L2 flip rule yields outward normals, centroid strictly inside, Euler) MeasuresPositive")
