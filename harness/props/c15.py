"""C15 - degenerate or invalid constructions are rejected, never returned."""
import engine
from geom import (G, observe, call, convs, Point, Vector, Line, HalfLine, Segment, Plane, ConvexPolygon, ConvexPolyhedron)
from geom import IDENT, random_pose
from props import common
from props.c20 import snap

ALLOWED = ("NotImplementedError", "ValueError", "TypeError")


def run(res, pool, tier, seed):
    jobs = [dict(module="MC_Reject.tla", tag="b1", invariants=["IntentMatches", "Emit"], batch=50, workers=4,
                 constants=dict(B=1, SEED=seed % 1000, NSHARD=1))]
    if tier != "quick":
        jobs.append(dict(module="MC_Reject.tla", tag="b2", invariants=["IntentMatches", "Emit"], batch=50, workers=4,
                         constants=dict(B=2, SEED=seed % 1000, NSHARD=1)))
    engine.run_jobs(res, jobs, pool)


def P(p, pose, num="float", dx=0.0):
    c = convs(list(pose.pt([p[0], p[1], p[2], 1])), num)
    if dx:
        c[0] = float(c[0]) + dx
    return Point(*c)


def V(v, pose, num="float", dx=0.0):
    c = convs(list(pose.vec(v)), num)
    if dx:
        c[0] = float(c[0]) + dx
    return Vector(*c)


def canon(kind):
    sq = ConvexPolygon((Point(0, 0, 0), Point(1, 0, 0), Point(1, 1, 0), Point(0, 1, 0)))
    return {"Point": lambda: Point(1, 2, 3), "Line": lambda: Line(Point(0, 0, 1), Vector(1, 2, 0)),
            "Plane": lambda: Plane(Point(0, 0, 1), Vector(1, -1, 2)), "Segment": lambda: Segment(Point(0, 0, 0), Point(1, 2, 3)),
            "HalfLine": lambda: HalfLine(Point(0, 1, 0), Vector(1, 0, 1)), "Polygon": lambda: sq,
            "Polyhedron": lambda: G.Parallelepiped(Point(0, 0, 0), Vector(1, 0, 0), Vector(0, 1, 0), Vector(0, 0, 1)),
            "Vector": lambda: Vector(1, 1, 0), "Pyramid": lambda: G.Pyramid(sq, Point(0, 0, 1), False),
            "Int": lambda: 3, "Str": lambda: "x", "NoneType": lambda: None, "Tuple": lambda: (1, 2, 3)}[kind]()


def cube_faces(missing=()):
    pts = {n: Point(*n) for n in [(x, y, z) for x in (0, 1) for y in (0, 1) for z in (0, 1)]}
    faces = [[(0, 0, 0), (1, 0, 0), (1, 1, 0), (0, 1, 0)], [(0, 0, 1), (1, 0, 1), (1, 1, 1), (0, 1, 1)],
             [(0, 0, 0), (1, 0, 0), (1, 0, 1), (0, 0, 1)], [(0, 1, 0), (1, 1, 0), (1, 1, 1), (0, 1, 1)],
             [(0, 0, 0), (0, 1, 0), (0, 1, 1), (0, 0, 1)], [(1, 0, 0), (1, 1, 0), (1, 1, 1), (1, 0, 1)]]
    return [ConvexPolygon(tuple(pts[v] for v in f)) for i, f in enumerate(faces) if i not in missing]


def tet_faces(o=(3, 3, 3)):
    a, b, c, d = (Point(o[0], o[1], o[2]), Point(o[0] + 1, o[1], o[2]), Point(o[0], o[1] + 1, o[2]), Point(o[0], o[1], o[2] + 1))
    return [ConvexPolygon(t) for t in ((a, b, c), (a, b, d), (a, c, d), (b, c, d))]


def thunk(c, pose, num):
    """the library call described by the instance"""
    call_, pts, vecs, n = c["call"], c["pts"], c["vecs"], c["n"]
    dx = 1e-12 if c["tiny"] else 0.0
    if call_ in ("Line.PP", "Segment.PP", "HalfLine.PP"):
        cls = {"Line": Line, "Segment": Segment, "HalfLine": HalfLine}[call_.split(".")[0]]
        return lambda: cls(P(pts[0], pose, num), P(pts[1], pose, num, dx))
    if call_ in ("Line.PV", "Segment.PV", "HalfLine.PV"):
        cls = {"Line": Line, "Segment": Segment, "HalfLine": HalfLine}[call_.split(".")[0]]
        return lambda: cls(P(pts[0], pose, num), V(vecs[0], pose, num, dx))
    if call_ == "Line.VV":
        return lambda: Line(P(pts[0], pose, num).pv(), V(vecs[0], pose, num))
    if call_ == "Polygon":
        return lambda: ConvexPolygon(tuple(P(p, pose, num, dx if i == len(pts) - 1 else 0.0) for i, p in enumerate(pts)))
    if call_ == "Plane.PN":
        return lambda: Plane(P(pts[0], pose, num), V(vecs[0], pose, num))
    if call_ == "Plane.3P":
        return lambda: Plane(P(pts[0], pose, num), P(pts[1], pose, num, dx), P(pts[2], pose, num))
    if call_ == "Plane.PVV":
        return lambda: Plane(P(pts[0], pose, num), V(vecs[0], pose, num), V(vecs[1], pose, num))
    if call_ == "Plane.GF":
        return lambda: Plane(0, 0, 0, n)
    if call_ == "Parallelogram":
        return lambda: G.Parallelogram(P(pts[0], pose, num), V(vecs[0], pose, num), V(vecs[1], pose, num))
    if call_ == "Parallelepiped":
        return lambda: G.Parallelepiped(P(pts[0], pose, num), V(vecs[0], pose, num), V(vecs[1], pose, num), V(vecs[2], pose, num))
    if call_ == "Circle":
        return lambda: G.Circle(P(pts[0], pose, num), V(vecs[0], pose, num), 1.5, n)
    if call_ == "Pyramid":
        return lambda: G.Pyramid(ConvexPolygon((P(pts[0], pose, num), P(pts[1], pose, num), P(pts[2], pose, num))),
                                 P(pts[3], pose, num, dx), False)
    if call_ == "Polyhedron":
        variants = {0: lambda: cube_faces(), 1: lambda: cube_faces((1,)), 2: lambda: cube_faces((1, 2, 3, 4, 5)),
                    3: lambda: cube_faces((2, 3, 4, 5)), 4: lambda: cube_faces() + tet_faces(),
                    # same V, E, F totals as the closed solid: a face left out and another one given twice
                    5: lambda: cube_faces((1,)) + [cube_faces()[0]], 6: lambda: tet_faces()[:3] + [tet_faces()[0]],
                    7: lambda: cube_faces((1, 3)) + [cube_faces()[0], cube_faces()[2]]}
        return lambda: ConvexPolyhedron(tuple(variants[n]()))
    if call_ == "SegFromList":
        return lambda: G.get_segment_from_point_list([P(p, pose, num) for p in pts])
    raise ValueError(call_)


def prelude(rng):
    """valid operations on objects obtained from the library's named constructors, mutated in place: whatever they share with
    the library (a cached zero vector, a shared origin ...) must not weaken a later validation"""
    from geom import G
    steps = [lambda: Line(G.Vector.zero(), G.x_unit_vector()).move(Vector(0, 0, 1)),
             lambda: G.origin().move(Vector(1, 2, 3)),
             lambda: G.Vector.zero().__setitem__(2, 1),
             lambda: G.x_axis().move(Vector(0, 1, 0)),
             lambda: G.xy_plane().move(Vector(0, 0, 2)),
             lambda: G.z_unit_vector().__setitem__(0, 5),
             lambda: Line(G.origin().pv(), Vector(0, 1, 0)).move(Vector(1, 0, 0))]
    rng.shuffle(steps)
    for f in steps[:rng.randint(1, 4)]:
        call(f)


def replay_case(case, tag, rng, tier):
    out = {"mism": [], "skipped": {}, "calls": 0, "nontrivial": not case["valid"]}
    if rng.random() < 0.3:
        prelude(rng)
    pose = IDENT if rng.random() < 0.4 else random_pose(rng, pts=[[p[0], p[1], p[2], 1] for p in case.get("pts", [])])
    num = rng.choice(("float", "int"))
    from fractions import Fraction as Fr
    import geom
    # the same instance at large magnitudes too (quantifier: "positions, poses and magnitudes"): a signed permutation scaled by a
    # power of two with a dyadic translation, so that every coordinate is still exact in binary floating point and an exactly
    # degenerate instance stays exactly degenerate
    settings = [(pose, 1)]
    if case["call"] != "op":
        for mag in (1024, 131072):
            settings.append((geom.Pose(s=1, k=Fr(mag), M=rng.choice(geom.SIGNED_PERMS), t=tuple(Fr(rng.randint(-8, 8), 4) for _ in range(3))), mag))

    def bad(clause, why, obs, sig):
        m, _ = common.mismatch(clause, sig, why, {"valid": case["valid"]}, obs, pose, [])
        out["mism"].append(m)

    if case["call"] == "op":
        op, ka, kb = case["op"], case["ka"], case["kb"]
        out["cls"] = "op|%s|%s" % (op, "supported" if case["valid"] else "unsupported")
        a = canon(ka)
        b = canon(kb) if kb != "-" else None
        before = snap(a) if op == "move" else None
        if op == "move":
            f = lambda: a.move(b)
        elif op == "volume":
            f = lambda: G.volume(a)
        else:
            f = lambda: getattr(G, op)(a, b)
        val, exc = call(f)
        out["calls"] += 1
        sig = {"op": op, "kinds": [ka, kb], "valid": case["valid"]}
        if case["valid"]:
            if exc is not None:
                bad("C15.supported_raises", "supported operands raised %s" % exc["cls"], exc, dict(sig, obs=common.obs_kind(exc)))
        else:
            if exc is None:
                bad("C15.unsupported_returns", "unsupported operands returned %r instead of raising" % (val,), observe(val),
                    dict(sig, obs=observe(val)["k"]))
            elif exc["cls"] not in ALLOWED:
                bad("C15.unsupported_exception_class", "unsupported operands raised %s (allowed: %s)" % (exc["cls"], ", ".join(ALLOWED)), exc,
                    dict(sig, obs=common.obs_kind(exc)))
            if op == "move" and snap(a) != before:
                bad("C15.rejected_move_changed_receiver", "a rejected move changed the receiver", {"k": "-"}, sig)
        if not out["mism"]:
            out["sample"] = {"call": "%s(%s, %s)" % (op, ka, kb), "expected": "value" if case["valid"] else "raise"}
        return out
    out["cls"] = "%s|%s|%s" % (case["call"], "valid" if case["valid"] else "invalid", "tiny" if case["tiny"] else "exact")
    for pose, mag in settings:
        val, exc = call(thunk(case, pose, num))
        out["calls"] += 1
        sig = {"op": case["call"], "valid": case["valid"], "tiny": case["tiny"], "npts": len(case["pts"])}
        if mag > 1:
            sig["large"] = True
        if case["valid"]:
            if exc is not None:
                # a valid control that fails is not a rejection defect (C15 is about invalid input); it is counted, and the
                # property that owns the constructor (C14, C17, C09 ...) reports it
                out["skipped"]["valid-control-raised:%s" % case["call"]] = 1
            elif isinstance(val, BaseException):
                bad("C15.returned_exception", "returned an exception instance", observe(val), sig)
        else:
            if exc is None:
                bad("C15.invalid_accepted", "invalid arguments returned %s instead of raising" % observe(val)["k"], observe(val),
                    dict(sig, obs=observe(val)["k"]))
    if not out["mism"]:
        out["sample"] = {"call": case["call"], "pts": case["pts"], "vecs": case["vecs"], "n": case["n"], "tiny": case["tiny"],
                         "expected": "object" if case["valid"] else "exception"}
    return out


def finish(res):
    return engine.report(
        res, rule="every invalid-input class of the statement instantiated over lattice positions and directions (with eps/100-style tiny "
                  "displacements), valid controls, every operand-kind pair for intersection/distance/angle/parallel/orthogonal/volume "
                  "incl. Vector, Pyramid, int, str, and move with non-Vector arguments on all seven kinds; non-trivial = invalid call",
        assumptions=["TLC/SANY", "the table mapping call descriptors to library calls (harness/props/c15.py)",
                     "open face sets are described by a variant index interpreted by the harness"],
        invariants_note="IntentMatches: each generated instance is invalid/valid exactly as ValidCall (type invariants) says")
