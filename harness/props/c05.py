"""C05 - membership (`in`) agrees with exact geometric containment."""
import engine
from geom import observe, call, build
from props import common

POLYH = ["tet", "tet2", "cube", "box", "obl", "prism", "pyr", "octa", "wedge", "pprism", "ppyr", "hprism"]
POLYG = ["tri", "triObl", "sq", "rectObl", "trap", "par", "pent", "pentObl", "hex", "hexObl", "stripH", "stripV", "triUp", "triDown"]
KC = ["Line", "HalfLine", "Segment", "Plane"]
KX = ["Point", "Segment", "HalfLine", "Line", "Polygon"]
INVS = ["SubsetSound", "SubsetWitness", "SubsetIffInter", "Emit"]


def run(res, pool, tier, seed):
    sd = seed % 1000
    if tier == "quick":
        jobs = [dict(module="MC_Mem.tla", tag="s2", invariants=INVS, timeout=1500,
                     constants=dict(GENK=set(), NGEN=1, S=2, BODIES=set(POLYH + POLYG), KC=set(KC), KX=set(KX), B=1, SEED=sd, NSHARD=320, NSHARDP=4)),
                dict(module="MC_Mem.tla", tag="s8-near", invariants=INVS, timeout=1500,
                     constants=dict(GENK=set(), NGEN=1, S=8, BODIES={"tet2", "obl", "octa", "hexObl", "par"}, KC={"Segment", "HalfLine"}, KX={"Point"}, B=1,
                                    SEED=sd, NSHARD=40, NSHARDP=10))]
    else:
        jobs = [dict(module="MC_Mem.tla", tag="s2", invariants=INVS, timeout=7200,
                     constants=dict(GENK=set(), NGEN=1, S=2, BODIES=set(POLYH + POLYG), KC=set(KC), KX=set(KX), B=1, SEED=sd, NSHARD=90, NSHARDP=2)),
                dict(module="MC_Mem.tla", tag="s2-dirs2", invariants=INVS, timeout=7200,
                     constants=dict(GENK=set(), NGEN=1, S=2, BODIES=set(), KC=set(KC), KX=set(KX) - {"Polygon"}, B=2, SEED=sd, NSHARD=150, NSHARDP=2)),
                dict(module="MC_Mem.tla", tag="general-hulls", invariants=INVS, timeout=7200,
                     constants=dict(GENK={4, 5, 6}, NGEN=4000, S=2, BODIES=set(), KC=set(), KX={"Point", "Segment"}, B=1, SEED=sd, NSHARD=60, NSHARDP=2)),
                dict(module="MC_Mem.tla", tag="s8-near", invariants=INVS, timeout=7200,
                     constants=dict(GENK=set(), NGEN=1, S=8, BODIES=set(POLYH + POLYG), KC=set(KC), KX={"Point"}, B=1, SEED=sd, NSHARD=60, NSHARDP=4))]
    # flat containers only (a line, half-line, segment or plane through the origin in every lattice direction) with composite candidates:
    # among all containers they are few, and contained half-lines / segments / lines are rare among their candidates
    jobs.append(dict(module="MC_Mem.tla", tag="flat-containers", invariants=INVS, timeout=3600,
                     constants=dict(GENK=set(), NGEN=1, S=2, BODIES=set(), KC=set(KC), KX={"Segment", "HalfLine", "Line"}, B=1, SEED=sd + 7,
                                    NSHARD=8 if tier == "quick" else 2, NSHARDP=1000)))
    # containers with edges / faces of generic slope (unit normals and directions are irrational, feature positions non-dyadic)
    jobs.append(dict(module="MC_Mem.tla", tag="generic-slopes", invariants=INVS, timeout=3600,
                     constants=dict(GENK=set(), NGEN=1, S=2, BODIES={"gprismA", "gtriB"}, KC=set(), KX={"Point", "Segment"}, B=1, SEED=sd,
                                    NSHARD=40 if tier == "quick" else 12, NSHARDP=4 if tier == "quick" else 2)))
    engine.run_jobs(res, jobs, pool)
    import traces
    traces.run_for(res, ["driver"] if tier == "quick" else ["unit_tests", "driver"], {"C05"}, seed=seed + 3, nsessions=250 if tier == "quick" else 2500)


def replay_case(case, tag, rng, tier):
    x, c, exp = case["x"], case["c"], case["exp"]
    s = case.get("s", 1)
    out = {"mism": [], "skipped": {}, "calls": 0, "cls": "|".join(case["cls"]),
           "nontrivial": case["cls"][2] not in ("Outside", "outside")}
    for pose in common.poses_for((x, c), rng, 2, s):
        num = common.num_for(rng, pose, (x, c))
        lx, lc = common.build_variant(x, pose, num, rng), common.build_variant(c, pose, num, rng)
        val, exc = call(lambda: lx in lc)
        out["calls"] += 1
        obs = exc or observe(val)
        why = None
        if obs["k"] == "Exception":
            why = "raised %s at %s" % (obs["cls"], obs["site"])
        elif obs["k"] != "Bool" or obs["b"] != exp:
            why = "`x in S` is %r, exact containment is %r" % (val, exp)
        if why:
            sig = {"op": "in", "kinds": [x["k"], c["k"]], "exp": exp, "obs": common.obs_kind(obs), "cls": case["cls"][2]}
            m, skip = common.mismatch("C05.in", sig, why, {"k": "Bool", "b": exp}, obs, pose, (x, c))
            if m:
                out["mism"].append(m)
            else:
                out["skipped"][skip] = out["skipped"].get(skip, 0) + 1
    if not out["mism"]:
        out["sample"] = {"x": x, "S": c, "scale": s, "expected": exp}
    return out


def finish(res):
    return engine.report(
        res, rule="containers: flats at the origin and the 22 catalogue bodies; candidates anchored at the integer points of the "
                  "container's expanded bounding box in units of 1/S of the lattice (S=2: half-lattice; S=8: points 1/8 outside each "
                  "feature): points, segments, half-lines, lines, triangles, for exactly the supported pairs; 3 poses; non-trivial = "
                  "candidate touches or lies in the container",
        assumptions=["TLC/SANY", "relation R (truth values compared exactly)", "hash-boundary admission filter"],
        invariants_note="SubsetSound SubsetWitness (L1 generators vs L0 pointwise) and SubsetIffInter on every state")
