"""C16 - solve returns genuine solutions of the linear system."""
import copy
from fractions import Fraction as Fr

import engine
from geom import G, call
from props import common

INVS = ["L2Solvable", "L2VarArgs", "L2Echelon", "L2Solution", "Emit"]
PARAMS = (Fr(-2), Fr(0), Fr(1), Fr(1, 2), Fr(3))


def job(rows, cols, e, seed, nshard, tag):
    return dict(module="MC_Solve.tla", tag=tag, invariants=INVS, batch=500, timeout=7200,
                constants=dict(ROWS=rows, COLS=cols, E=e, SEED=seed % 1000, NSHARD=nshard, COUPLED=False))


def run(res, pool, tier, seed):
    if tier == "quick":
        jobs = [job(1, 3, 2, seed, 1, "1x3"), job(2, 3, 2, seed, 1, "2x3"), job(1, 4, 2, seed, 1, "1x4"),
                job(2, 4, 2, seed, 12, "2x4"), job(3, 3, 1, seed, 1, "3x3e1"), job(3, 4, 1, seed, 40, "3x4e1")]
    else:
        jobs = [job(1, 3, 2, seed, 1, "1x3"), job(2, 3, 2, seed, 1, "2x3"), job(1, 4, 2, seed, 1, "1x4"),
                job(2, 4, 2, seed, 1, "2x4"), job(3, 3, 2, seed, 3, "3x3"), job(3, 4, 1, seed, 2, "3x4e1")]
    engine.run_jobs(res, jobs, pool)
    res.exhaustive = False
    import traces
    traces.run_for(res, ["unit_tests", "driver"], {"C16"}, seed=seed + 8, nsessions=150 if tier == "quick" else 2000)


def conv(m, num):
    if num == "int":
        return [[int(x) for x in row] for row in m]
    if num == "float":
        return [[float(x) for x in row] for row in m]
    return [[Fr(x) for x in row] for row in m]


def replay_case(case, tag, rng, tier):
    m, cons, free = case["m"], case["consistent"], case["free"]
    zero_lead = all(row[0] == 0 for row in m)
    out = {"mism": [], "skipped": {}, "calls": 0, "nontrivial": (not cons) or free > 0 or zero_lead,
           "cls": "%dx%d|%s|free=%d|zerolead=%s" % (len(m), len(m[0]), "consistent" if cons else "inconsistent", free, zero_lead)}

    def bad(clause, why, num):
        sig = {"op": clause.split(".", 1)[1], "shape": "%dx%d" % (len(m), len(m[0])), "consistent": cons, "zero_leading_column": zero_lead,
               "num": num}
        mm, _ = common.mismatch(clause, sig, why, {"consistent": cons, "free": free, "rank": case["rank"]}, {"k": "-"}, common.geom.IDENT, [])
        out["mism"].append(mm)

    for num in ("int", "float", "frac"):
        mat = conv(m, num)
        given = copy.deepcopy(mat)
        # the same system presented differently: equal rows given as ONE row object, rows given as tuples, or the very matrix object
        # that an earlier solve() has already seen (a system is a value: the answer may depend on none of this)
        form = rng.choice(("fresh", "fresh", "shared_rows", "tuple_rows", "solved_before"))
        if form == "solved_before" and num != "frac":
            form = "fresh"          # (the matrix left behind by a float elimination is no longer a small-rational system: only exact entries are claimed)
        if form == "shared_rows":
            first = {}
            given = [first.setdefault(tuple(r), r) for r in given]
        elif form == "tuple_rows":
            given = [tuple(r) for r in given]            # (the outer container must be a list: solve() reorders it in place)
        elif form == "solved_before":
            call(G.solve, given)
            out["calls"] += 1
        sol, exc = call(G.solve, given)
        out["calls"] += 1
        num = num if form == "fresh" else num + "/" + form
        if exc is not None:
            bad("C16.solve_raises", "solve raised %s at %s: %s" % (exc["cls"], exc["site"], exc["msg"]), num)
            continue
        if bool(sol) is not cons:
            bad("C16.truthiness", "solve(m) is %s, the system is %s" % ("truthy" if sol else "falsy", "consistent" if cons else "inconsistent"), num)
            continue
        if not cons:
            continue
        if sol.varargs != free:
            bad("C16.varargs", "varargs = %r, unknowns - rank = %d" % (sol.varargs, free), num)
            continue
        if sol.exact is not (free == 0):
            bad("C16.exact", "exact = %r with %d free parameters" % (sol.exact, free), num)
        for trial in range(2):
            params = [rng.choice(PARAMS) for _ in range(free)]
            if num.startswith("float"):
                params = [float(p) for p in params]
            x, exc = call(sol, *params)
            out["calls"] += 1
            if exc is not None:
                bad("C16.call_raises", "solution(%s) raised %s at %s: %s" % (params, exc["cls"], exc["site"], exc["msg"]), num)
                break
            if not isinstance(x, tuple) or len(x) != len(m[0]) - 1 or any(v is None for v in x):
                bad("C16.call_shape", "solution(%s) returned %r" % (params, x), num)
                break
            ok = True
            for row in m:
                lhs = sum(Fr(row[j]) * (Fr(x[j]) if not num.startswith("float") else Fr(float(x[j]))) for j in range(len(x)))
                if num.startswith("frac"):
                    ok = ok and lhs == row[-1]
                else:
                    ok = ok and abs(float(lhs) - row[-1]) <= 1e-9 * max(1.0, max(abs(float(v)) for v in x))
            if not ok:
                bad("C16.not_a_solution", "solution(%s) = %r does not satisfy the system" % (params, x), num)
                break
    if not out["mism"]:
        out["sample"] = {"matrix": m, "consistent": cons, "free_parameters": free}
    return out


def finish(res):
    return engine.report(
        res, rule="all augmented matrices with 1-3 equations and 2-3 unknowns over {-2..2} (3-row systems over {-1..1} in the quick tier, "
                  "larger shapes sharded), each solved with int, float and Fraction entries; truthiness, varargs, exact, and two calls "
                  "with parameter values from {-2, 0, 1, 1/2, 3} whose result must satisfy every equation (exactly for Fractions); "
                  "non-trivial = inconsistent, under-determined or zero leading column",
        assumptions=["TLC/SANY", "residual check of a returned tuple is plain arithmetic in the harness (solutions are not unique)"],
        invariants_note="L2Solvable L2VarArgs L2Echelon L2Solution: the implementation-shaped elimination loop refines rank/consistency by minors; "
                        "with COUPLED=TRUE (the original loop) TLC refutes L2Solvable with [[0,-2,-1],[0,-2,-2]]")
