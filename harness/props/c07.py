"""C07 - move translates the object in place and keeps it self-consistent."""
import copy
import math

import engine
from geom import G, R, observe, call, build, mk_point, sqrt_rat, Vector
from props import common
from props.c11 import expected_angle

KINDS = ["Point", "Line", "HalfLine", "Segment", "Plane", "Polygon", "Polyhedron"]
MC_INVS = ["DispInv", "MeasureInv", "BackInv", "ValidInv", "KindInv", "TransEquiv"]


def consts(seed, depth, nshard, kinds=KINDS):
    return {"S": 2, "KINDS": set(kinds), "SEED": seed % 1000, "NSHARD": nshard, "ObjChoices": "<- MCObjChoices",
            "ArgPts": "<- MCNoArgs", "MoveVecs": "<- MCMoveVecs", "Alphabet": {"Move", "Copy", "Obs"}, "QueryOps": set(),
            "MaxDepth": depth, "Probes": "<- MCProbes"}


def run(res, pool, tier, seed):
    if tier == "quick":
        jobs = [dict(module="MC_Move.tla", tag="mc", invariants=MC_INVS, properties=["QueryPure"], constants=consts(seed, 3, 1),
                     cfg_extra=["VIEW View"], timeout=1500),
                dict(module="MC_Move.tla", tag="gen", invariants=["Emit"], constants=consts(seed, 3, 3), timeout=1500, batch=25)]
    else:
        jobs = [dict(module="MC_Move.tla", tag="mc", invariants=MC_INVS, properties=["QueryPure"], constants=consts(seed, 4, 1),
                     cfg_extra=["VIEW View"], timeout=7200),
                dict(module="MC_Move.tla", tag="gen", invariants=["Emit"], constants=consts(seed, 4, 300), timeout=7200, batch=25),
                dict(module="MC_Move.tla", tag="gen-sim", invariants=["Emit"], constants=consts(seed, 6, 1), timeout=3600, batch=25,
                     simulate="num=300", depth=7, tlc_seed=seed + 11, workers=8, spec="SpecSim")]
    engine.run_jobs(res, jobs, pool)
    import traces
    traces.run_for(res, ["unit_tests", "driver", "sessions"], {"C07"}, seed=seed + 4, nsessions=300 if tier == "quick" else 3000)


def vec(v, pose, num):
    d = pose.disp(v)
    from geom import convs
    return Vector(*convs(list(d), num))


def battery(rep, case, pose, num):
    """run the query battery on one representative; returns {query-key: why-or-None} compared with the specification"""
    cur, bat, probes = case["cur"], case["bat"], case["probes"]
    out = {}
    why = R(observe(rep), cur, pose)
    out["snapshot"] = why
    k = cur["k"]
    if k in ("Segment", "HalfLine") and hasattr(rep, "line"):
        line = {"k": "Line", "p": cur["a"] if k == "Segment" else cur["p"],
                "u": [cur["b"][i] * cur["a"][3] - cur["a"][i] * cur["b"][3] for i in range(3)] if k == "Segment" else cur["u"]}
        out["cached_line"] = R(observe(rep.line), line, pose)
    if k == "Polygon" and hasattr(rep, "plane"):
        out["cached_plane"] = R(observe(rep.plane), {"k": "Plane", "p": cur["cyc"][0], "n": cur["n"]}, pose)
    for n, pe in enumerate(bat["mem"]):
        val, exc = call(lambda: mk_point(pe["p"], pose, num) in rep)
        obs = exc or observe(val)
        out["mem%d" % n] = None if (obs["k"] == "Bool" and obs["b"] == pe["e"]) else "Point in obj = %s, exact %s" % (obs.get("b", obs.get("cls")), pe["e"])
    for n, probe in enumerate(probes):
        lp = build(probe, pose, num)
        val, exc = call(G.intersection, rep, lp)
        out["inter%d" % n] = R(exc or observe(val), bat["inter"][n]["e"], pose)
        d = bat["dist"][n]
        if d["ok"]:
            val, exc = call(G.distance, rep, lp)
            want = sqrt_rat(d["q"], pose.lam)
            out["dist%d" % n] = None if (exc is None and abs(float(val) - want) <= 1e-9 * max(1.0, want)) else "distance %r, exact %r" % (exc or val, want)
        r = bat["rel"][n]
        if r["ok"]:
            val, exc = call(G.angle, rep, lp)
            want = expected_angle(r["ang"])
            out["angle%d" % n] = None if (exc is None and abs(float(val) - want) <= 1e-7) else "angle %r, exact %r" % (exc or val, want)
            val, exc = call(G.parallel, rep, lp)
            out["par%d" % n] = None if (exc is None and val == r["par"]) else "parallel %r, exact %r" % (exc or val, r["par"])
            val, exc = call(G.orthogonal, rep, lp)
            out["orth%d" % n] = None if (exc is None and val == r["orth"]) else "orthogonal %r, exact %r" % (exc or val, r["orth"])
    bads, _ = common.check_measures(rep, bat["meas"], pose)
    have = {b[0]: b[1] for b in bads}
    for name in common.expected_measures(bat["meas"], pose):
        out["meas_" + name] = have.get(name)
    return out


def replay_case(case, tag, rng, tier):
    if tag == "mc":
        return {"mism": [], "calls": 0, "cls": "mc", "nontrivial": False}
    orig, cur, hist = case["orig"], case["cur"], case["hist"]
    s = case["s"]
    nmoves = sum(1 for e in hist if e["act"] == "Move")
    out = {"mism": [], "skipped": {}, "calls": 0, "nontrivial": nmoves > 0,
           "cls": "%s|moves=%d|copy=%d|back=%s" % (orig["k"], nmoves, sum(1 for e in hist if e["act"] == "Copy"), case["disp"] == [0, 0, 0] and nmoves > 0)}
    pts = common.all_points(orig, cur)
    pose = common.poses_for((orig, cur), rng, 1, s)[rng.randint(0, 1)]
    num = "float" if rng.random() < 0.7 else "int"

    def bad(clause, why, rep_name, obs=None):
        sig = {"op": "move", "kind": orig["k"], "rep": rep_name.split("#")[0], "what": clause.split(".", 1)[1].rstrip("0123456789")}
        m, skip = common.mismatch(clause, sig, why, {"cur": cur, "hist": hist}, obs or {"k": "-"}, pose, (orig, cur))
        if m:
            out["mism"].append(m)
        else:
            out["skipped"][skip] = out["skipped"].get(skip, 0) + 1

    recv, exc = call(build, orig, pose, num)
    if exc is not None:
        return out
    copies, ret = [], None
    for e in hist:
        if e["act"] == "Move":
            v = vec(e["v"], pose, num)
            ret, exc = call(recv.move, v)
            out["calls"] += 1
            if exc is not None:
                bad("C07.move_raises", "move raised %s at %s: %s" % (exc["cls"], exc["site"], exc["msg"]), "receiver", exc)
                return out
            for c in copies:
                call(c.move, vec(e["v"], pose, num))
        elif e["act"] == "Copy":
            copies.append(copy.deepcopy(recv))
        elif e["act"] == "Obs":
            # an observation in the middle of a history: the whole battery plus hashing / equality / set insertion, so that
            # anything the object memoises is memoised *before* the next move
            call(battery, recv, case, pose, num)
            call(hash, recv)
            call(lambda: recv == recv)
            call(lambda: {recv})
            for c in copies:
                call(hash, c)
    fresh, exc = call(build, cur, pose, num)
    if exc is not None:
        return out
    base = battery(fresh, case, pose, num)
    reps = [("receiver", recv)] + [("copy#%d" % i, c) for i, c in enumerate(copies)]
    if ret is not None:
        reps.append(("return", ret))
    for name, rep in reps:
        got, exc = call(battery, rep, case, pose, num)
        out["calls"] += len(base)
        if exc is not None:
            bad("C07.battery_raises", "query on the moved object raised %s at %s" % (exc["cls"], exc["site"]), name, exc)
            continue
        for key, why in got.items():
            if why and not base.get(key):
                bad("C07." + key, why, name)
            elif why:
                out["skipped"]["baseline-defect"] = out["skipped"].get("baseline-defect", 0) + 1
        # equality and hashing against a freshly constructed object at the translated / original position
        val, exc = call(lambda: rep == fresh)
        if exc is not None or val is not True:
            bad("C07.eq_fresh", "moved object != object freshly constructed at the translated position (%r)" % (exc or val), name)
        else:
            h1, e1 = call(hash, rep)
            h2, e2 = call(hash, fresh)
            if e1 is not None or e2 is not None or h1 != h2:
                if common.admit.hash_boundary_free([cur], pose):
                    bad("C07.hash_fresh", "hash of the moved object differs from the hash of an equal fresh object", name)
        if ret is not None and name == "receiver":
            val, exc = call(lambda: ret == rep)
            if exc is not None or val is not True:
                bad("C07.return_eq", "move did not return an object equal to the moved receiver (%r)" % (exc or val), name)
        if nmoves > 0:
            o2 = build(orig, pose, num)
            val, exc = call(lambda: rep == o2)
            if exc is not None or val is not case["bat"]["eqorig"]:
                b2, _ = call(lambda: fresh == o2)
                if b2 is case["bat"]["eqorig"]:
                    bad("C07.eq_orig", "moved object == original-position object is %r, exact %r" % (exc or val, case["bat"]["eqorig"]), name)
    if not out["mism"]:
        out["sample"] = {"kind": orig["k"], "history": hist, "expected_current": cur}
    return out


def finish(res):
    return engine.report(
        res, rule="Session machine (MC_Move): one object under test per kind (14 objects incl. oblique polygons/polyhedra); TLC "
                  "enumerates every history over {Move(6 vectors incl. 0 and axis vectors), Copy, Obs} up to the depth bound once "
                  "(plus -simulate for longer ones in the thorough tier) and prints the exact current value and the exact answers "
                  "of the query battery; the replayer executes the history on the receiver, keeps the last return value and the deep "
                  "copies (moved along), and runs the battery on every representative and on a fresh object; non-trivial = at "
                  "least one Move",
        assumptions=["TLC/SANY", "relation R", "a disagreement is charged to C07 only if the freshly constructed object answers as the "
                     "specification does (otherwise it is a defect of the query itself, reported by that query's own property)"],
        invariants_note="DispInv MeasureInv BackInv ValidInv KindInv TransEquiv QueryPure on the Session state graph (VIEW hides hist)")
