"""C02 - flat primitive vs convex polygon / polyhedron intersection is exact."""
import engine
from props import common

FLAT = ["Point", "Line", "HalfLine", "Segment", "Plane"]
POLYH = ["tet", "tet2", "cube", "box", "obl", "prism", "pyr", "octa", "wedge", "pprism", "ppyr", "hprism"]
POLYG = ["tri", "triObl", "sq", "rectObl", "trap", "par", "pent", "pentObl", "hex", "hexObl"]
INVS = ["BodyOK", "Typed", "InBoth", "AnalyticEqGeneric", "ProbesAgree", "Emit"]


def run(res, pool, tier, seed):
    sd = seed % 1000
    if tier == "quick":
        jobs = [dict(module="MC_FlatBody.tla", tag="catalogue", invariants=INVS, timeout=1200,
                     constants=dict(S=2, BODIES=set(POLYH + POLYG), KF=set(FLAT), SEED=sd, NSHARD=60, NXCHECK=8))]
    else:
        jobs = [dict(module="MC_FlatBody.tla", tag="catalogue", invariants=INVS, timeout=7200,
                     constants=dict(S=2, BODIES=set(POLYH + POLYG), KF=set(FLAT), SEED=sd, NSHARD=4, NXCHECK=16))]
    engine.run_jobs(res, jobs, pool)
    import traces
    traces.run_for(res, ["unit_tests", "driver"] if tier != "quick" else ["unit_tests"], {"C02"}, seed=seed + 1, nsessions=2500)


def replay_case(case, tag, rng, tier):
    out = common.check_intersection(case, rng, 1, "C02.inter", ("func", "swapped"))
    out["cls"] = "|".join(str(x) for x in case["cls"])
    return out


def finish(res):
    return engine.report(
        res, rule="catalogue bodies (12 polyhedra, 10 polygons, scale 1/2) x flats anchored at the integer points of the expanded "
                  "bounding box (segments between box points, lines/half-lines/planes with lattice directions up to (2,2,2)); "
                  "sharded; each case replayed in both argument orders and 2 poses; non-trivial = non-empty exact intersection",
        assumptions=["TLC/SANY", "relation R", "builders construct a polyhedron from its faces' vertex cycles",
                     "hash-boundary admission filter"],
        invariants_note="BodyOK Typed InBoth on every state; AnalyticEqGeneric (clipping = vertex enumeration) and ProbesAgree on a shard")
