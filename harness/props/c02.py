"""C02 - flat primitive vs convex polygon / polyhedron intersection is exact."""
import engine
from props import common

FLAT = ["Point", "Line", "HalfLine", "Segment", "Plane"]
POLYH = ["tet", "tet2", "cube", "box", "obl", "prism", "pyr", "octa", "wedge", "pprism", "ppyr", "hprism"]
POLYG = ["tri", "triObl", "sq", "rectObl", "trap", "par", "pent", "pentObl", "hex", "hexObl", "stripH", "stripV", "triUp", "triDown"]
INVS = ["BodyOK", "Typed", "InBoth", "AnalyticEqGeneric", "ProbesAgree", "HitsSound", "L2Refines", "Emit"]


def run(res, pool, tier, seed):
    sd = seed % 1000
    if tier == "quick":
        jobs = [dict(module="MC_FlatBody.tla", tag="catalogue", invariants=INVS, timeout=1200,
                     constants=dict(GENK=set(), NGEN=1, S=2, BODIES=set(POLYH + POLYG), KF=set(FLAT), SEED=sd, NSHARD=110, NXCHECK=8)),
                dict(module="MC_FlatBody.tla", tag="general-hulls", invariants=INVS, timeout=1200,
                     constants=dict(GENK={5}, NGEN=16000, S=2, BODIES=set(), KF=set(FLAT), SEED=sd, NSHARD=160, NXCHECK=8))]
    else:
        jobs = [dict(module="MC_FlatBody.tla", tag="catalogue", invariants=INVS, timeout=7200,
                     constants=dict(GENK=set(), NGEN=1, S=2, BODIES=set(POLYH + POLYG), KF=set(FLAT), SEED=sd, NSHARD=40, NXCHECK=16)),
                dict(module="MC_FlatBody.tla", tag="general-hulls", invariants=INVS, timeout=7200,
                     constants=dict(GENK={4, 5, 6}, NGEN=2500, S=2, BODIES=set(), KF=set(FLAT), SEED=sd, NSHARD=90, NXCHECK=16))]
    # points and half-line origins 1/8 of a lattice unit off the faces of lopsided bodies (segments would need |pts|^2 anchors)
    jobs.append(dict(module="MC_FlatBody.tla", tag="near-s8", invariants=["Typed", "InBoth", "Emit"], timeout=3600,
                     constants=dict(GENK=set(), NGEN=1, S=8, BODIES={"tet", "pyr", "wedge", "ppyr", "obl"}, KF={"Point", "HalfLine"}, SEED=sd,
                                    NSHARD=400 if tier == "quick" else 100, NXCHECK=1000)))
    # bodies with edges / faces of generic slope: crossing points are not dyadic
    jobs.append(dict(module="MC_FlatBody.tla", tag="generic-slopes", invariants=INVS, timeout=3600,
                     constants=dict(GENK=set(), NGEN=1, S=2, BODIES={"gprismA", "gprismB", "gtriA", "gtriB"}, KF=set(FLAT), SEED=sd,
                                    NSHARD=250 if tier == "quick" else 100, NXCHECK=8)))
    engine.run_jobs(res, jobs, pool)
    import traces
    traces.run_for(res, ["unit_tests", "driver"] if tier != "quick" else ["unit_tests"], {"C02"}, seed=seed + 1, nsessions=250 if tier == "quick" else 2500)


def replay_case(case, tag, rng, tier):
    out = common.check_intersection(case, rng, 1, "C02.inter", ("func", "swapped", "method") if rng.random() < 0.2 else ("func", "swapped"))
    out["cls"] = "|".join(str(x) for x in case["cls"])
    h = case.get("hits")
    if h and h["ok"]:
        helpers(case, h["pts"], rng, out)
    return out


def helpers(case, want, rng, out):
    """the exported helper functions on the same case: point-hit set and longest segment of a collinear list"""
    from geom import G, call, build, match_points, fl3, R, observe
    a, b, s = case["a"], case["b"], case.get("s", 1)
    pose = common.poses_for((a, b), rng, 1, s)[rng.randint(0, 1)]
    la, lb = build(a, pose, "float"), build(b, pose, "float")
    fn = G.get_segment_convexpolyhedron_intersection_point_set if b["k"] == "Polyhedron" else G.get_segment_convexpolygon_intersection_point_set
    val, exc = call(fn, la, lb)
    out["calls"] += 1
    why = None
    if exc is not None:
        why = "raised %s at %s" % (exc["cls"], exc["site"])
    else:
        why = match_points([fl3(p) for p in val], [pose.pt(P) for P in want])
    if why:
        sig = {"op": fn.__name__, "kinds": [a["k"], b["k"]], "nhits": len(want)}
        m, skip = common.mismatch("C02.helper_point_set", sig, "hit set: " + why, {"hits": want}, exc or {"k": "Seq", "n": len(val)}, pose, (a, b))
        if m:
            out["mism"].append(m)
    exp = case["exp"]
    if exp["k"] == "Segment" and rng.random() < 0.5:
        # collinear points of the exact result (endpoints, midpoint, a quarter point) in a seeded order -> the segment itself
        from fractions import Fraction as Fr
        ea, eb = pose.pt(exp["a"]), pose.pt(exp["b"])
        pts = [ea, eb, tuple((x + y) / 2 for x, y in zip(ea, eb)), tuple((3 * x + y) / 4 for x, y in zip(ea, eb))]
        rng.shuffle(pts)
        val, exc = call(G.get_segment_from_point_list, [G.Point(*[float(c) for c in p]) for p in pts])
        out["calls"] += 1
        why = R(exc or observe(val), exp, pose)
        if why:
            sig = {"op": "get_segment_from_point_list", "kinds": [a["k"], b["k"]]}
            m, skip = common.mismatch("C02.helper_segment_from_points", sig, why, exp, exc or observe(val), pose, (a, b))
            if m:
                out["mism"].append(m)


def finish(res):
    return engine.report(
        res, rule="catalogue bodies (12 polyhedra, 10 polygons, scale 1/2) x flats anchored at the integer points of the expanded "
                  "bounding box (segments between box points, lines/half-lines/planes with lattice directions up to (2,2,2)); "
                  "sharded; each case replayed in both argument orders and 2 poses; non-trivial = non-empty exact intersection",
        assumptions=["TLC/SANY", "relation R", "builders construct a polyhedron from its faces' vertex cycles",
                     "hash-boundary admission filter"],
        invariants_note="BodyOK Typed InBoth on every state; AnalyticEqGeneric (clipping = vertex enumeration) and ProbesAgree on a shard")
