"""C13 - all queries commute with lattice isometries and uniform scaling."""
import engine
from geom import G, R, observe, call, build, sqrt_rat, Pose
from fractions import Fraction as Fr
from props import common
from props.c11 import expected_angle

INVS = ["EqInter", "EqMem", "EqDist", "EqRel", "EqMeas", "Emit"]
ALLK = {"Point", "Line", "HalfLine", "Segment", "Plane", "Vector"}


def run(res, pool, tier, seed):
    q = tier == "quick"
    jobs = [dict(module="MC_Equi.tla", tag="equi", invariants=INVS, timeout=7200, batch=60,
                 constants=dict(KA=ALLK, KB=ALLK, BODIES={"tet2", "par", "ppyr", "cube", "hexObl"} if not q else {"tet2", "par", "ppyr"},
                                SEED=seed % 1000, NSHARD=12 if q else 3, NSHARDT=48 if q else 12, NBORING=120 if q else 12))]
    engine.run_jobs(res, jobs, pool)
    # TLAPS: the algebra behind equivariance for all integers (sides, volumes, areas, lengths under translation, scaling, a signed permutation)
    import tlcio
    res.extra["tlaps"] = tlcio.run_tlaps("Proofs_G3DEqui.tla", ["SideTranslates", "SideScales", "DetTranslates", "DetScales", "CrossScales1", "CrossScales2",
                                                                "CrossScales3", "Norm2Scales", "SignedPermutation"])


def represent(x, pose, num, rng):
    """the same point set presented differently: reversed vertex cycle / other face order; (VARY rescales and negates direction vectors)"""
    if x["k"] == "Polygon":
        return build(x, pose, num, {"perm": list(range(len(x["cyc"]) - 1, -1, -1))})
    if x["k"] == "Polyhedron":
        order = list(range(len(x["fs"])))
        rng.shuffle(order)
        return build(x, pose, num, {"forder": order, "rev": set(order[::2])})
    if x["k"] == "Segment":
        return build(x, pose, num, {"swap": True})
    return build(x, pose, num)


def queries(la, lb, a, b, case, which, pose, out, bad):
    """run every query on one side (base or transformed); `which` selects the expected values"""
    k = case["T"]["k"] if which == "t" else 1
    lam = pose.lam * k if False else pose.lam
    if a["k"] != "Vector":
        exp = case["tinter" if which == "t" else "inter"]
        val, exc = call(G.intersection, la, lb)
        out["calls"] += 1
        why = R(exc or observe(val), exp, pose)
        if why:
            bad("C13.intersection", "%s side: %s" % (which, why), exc or observe(val), which)
        if case["mem"][0]:
            val, exc = call(lambda: la in lb)
            out["calls"] += 1
            if exc is not None or val is not case["mem"][1]:
                bad("C13.in", "%s side: `in` gave %r, exact %r" % (which, exc["cls"] if exc else val, case["mem"][1]), exc or observe(val), which)
        if a["k"] == b["k"]:
            val, exc = call(lambda: la == lb)
            out["calls"] += 1
            if exc is not None or bool(val) is not case["same"]:
                bad("C13.eq", "%s side: == gave %r, exact %r" % (which, exc["cls"] if exc else val, case["same"]), exc or observe(val), which)
        if case["dist"][0]:
            val, exc = call(G.distance, la, lb)
            out["calls"] += 1
            want = sqrt_rat(case["dist"][1], pose.lam) * k
            if exc is not None or not abs(float(val) - want) <= 1e-9 * max(1.0, want):
                bad("C13.distance", "%s side: distance %r, exact %r" % (which, exc["cls"] if exc else val, want), exc or observe(val), which)
        m = case["tm" if which == "t" else "m"]
        bads, n = common.check_measures(la, m, pose)
        out["calls"] += n
        for name, w, ob in bads:
            bad("C13.measure_" + name, "%s side: %s" % (which, w), ob, which)
    r = case["rel"]
    if r["ok"]:
        for name, fn, want in (("angle", G.angle, expected_angle(r["ang"])), ("parallel", G.parallel, r["par"]), ("orthogonal", G.orthogonal, r["orth"])):
            val, exc = call(fn, la, lb)
            out["calls"] += 1
            ok = exc is None and (abs(float(val) - want) <= 1e-7 if name == "angle" else val is want)
            if not ok:
                bad("C13." + name, "%s side: %s gave %r, exact %r" % (which, name, exc["cls"] if exc else val, want), exc or observe(val), which)


def replay_case(case, tag, rng, tier):
    a, b, T = case["a"], case["b"], case["T"]
    det = 1
    out = {"mism": [], "skipped": {}, "calls": 0, "nontrivial": True,
           "cls": "%s|%s|k=%d|perm=%s|sg=%s" % (a["k"], b["k"], T["k"], "".join(map(str, T["perm"])), "".join("+" if s > 0 else "-" for s in T["sg"]))}
    s = rng.choice((1, 1, 2))            # case scale 2 realises the scaling k = 1/2 (and 3/2) of the quantifier
    pose = Pose(s=s)

    def bad(clause, why, obs, which):
        sig = {"op": clause.split(".", 1)[1], "kinds": [a["k"], b["k"]], "side": which, "k": T["k"], "perm": T["perm"], "sg": T["sg"]}
        m, skip = common.mismatch(clause, sig, why, {"T": T}, obs, pose, [x for x in (a, b, case["ta"], case["tb"]) if x["k"] != "Vector"])
        if m:
            out["mism"].append(m)
        else:
            out["skipped"][skip] = out["skipped"].get(skip, 0) + 1

    num = rng.choice(("float", "int"))
    for which, (x, y) in (("base", (a, b)), ("t", (case["ta"], case["tb"]))):
        # bodies are presented with seeded face orders / orientations and vertex orders (a property of the input, not of the set)
        bpose = pose
        by_moves = which == "t" and any(T["t"]) and a["k"] != "Vector" and rng.random() < 0.3
        if by_moves:
            # the translation part of T applied by the library itself, in two in-place steps, to operands built at the untranslated place
            shift = [Fr(c, s) for c in T["t"]]
            bpose = Pose(s=s, t=tuple(-c for c in shift))
        la, e1 = call((lambda o: represent(o, bpose, num, rng)) if rng.random() < 0.5 else (lambda o: build(o, bpose, num)), x)
        lb, e2 = call((lambda o: represent(o, bpose, num, rng)) if rng.random() < 0.5 else (lambda o: build(o, bpose, num)), y)
        if by_moves and e1 is None and e2 is None:
            from geom import Vector, convs
            t1 = [Fr(1, s), Fr(0), Fr(-1, s)]
            for lo in (la, lb):
                _, ex = call(lo.move, Vector(*convs(t1, num)))
                _, ex2 = call(lo.move, Vector(*convs([c - d for c, d in zip(shift, t1)], num)))
                e1 = e1 or ex or ex2
        if e1 is not None or e2 is not None:
            bad("C13.construct", "%s side could not be constructed" % which, e1 or e2, which)
            continue
        queries(la, lb, x, y, case, which, pose, out, bad)
        for o, lo in ((x, la), (y, lb)):
            if o["k"] == "Vector":
                continue
            twin, exc = call(represent, o, pose, num, rng)
            if exc is not None:
                continue
            val, exc = call(lambda: lo == twin)
            out["calls"] += 1
            if exc is not None or val is not True:
                bad("C13.eq_self", "%s side: an object is not == to another presentation of itself (%r)" % (which, exc["cls"] if exc else val),
                    exc or observe(val), which)
            elif common.admit.hash_boundary_free([o], pose):
                h1, h2 = call(hash, lo)[0], call(hash, twin)[0]
                if h1 != h2:
                    bad("C13.hash_self", "%s side: equal presentations hash differently" % which, {"k": "-"}, which)
    if not out["mism"]:
        out["sample"] = {"a": a, "b": b, "T": T, "expected_base": case["inter"], "expected_transformed": case["tinter"]}
    return out


def finish(res):
    return engine.report(
        res, rule="(case, T) pairs: flat objects over the lattice, vectors and catalogue bodies x T = signed axis permutation (all 48) x "
                  "k in {1,2,3} x translation, case scale 1 or 1/2 (=> k in {1/2,1,3/2,2,3}); the library is run on the base operands and on the "
                  "transformed operands and each side is compared with the specification's value for that side (TLC proves the two expected "
                  "values are images of each other); queries: intersection, in, ==, distance, angle, parallel, orthogonal, length/area/volume",
        assumptions=["TLC/SANY", "relation R"],
        invariants_note="EqInter EqMem EqDist EqRel EqMeas: equivariance of the specification under every enumerated T")
