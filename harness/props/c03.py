"""C03 - intersection of two convex polygons / polyhedra is the exact convex set."""
import engine
from geom import G, R, observe, call, build
from props import common

POLYH = ["tet", "tet2", "cube", "box", "obl", "prism", "pyr", "octa", "wedge", "pprism", "ppyr", "hprism"]
POLYG = ["tri", "triObl", "sq", "rectObl", "trap", "par", "pent", "pentObl", "hex", "hexObl", "stripH", "stripV", "triUp", "triDown"]
INVS = ["Typed", "Symmetric", "InBoth", "ResultSane", "ProbesAgree", "VolMonotone", "L2Refines", "Emit"]


def run(res, pool, tier, seed):
    sd = seed % 1000
    allb = set(POLYH + POLYG)
    if tier == "quick":
        jobs = [dict(module="MC_BodyBody.tla", tag="catalogue", invariants=INVS, timeout=1500, batch=40,
                     constants=dict(NL2=4, SA=2, OFF=0, GENK=set(), NGEN=1, S=2, BODIES1=allb, BODIES2=allb, T=2, SEED=sd, NSHARD=25)),
                dict(module="MC_BodyBody.tla", tag="general-hulls", invariants=INVS, timeout=1500, batch=40,
                     constants=dict(NL2=4, SA=2, OFF=0, GENK={5}, NGEN=8000, S=2, BODIES1=set(), BODIES2={"cube", "tet2", "hexObl"}, T=2, SEED=sd, NSHARD=20))]
    else:
        jobs = [dict(module="MC_BodyBody.tla", tag="catalogue", invariants=INVS, timeout=10000, batch=40,
                     constants=dict(NL2=4, SA=2, OFF=0, GENK=set(), NGEN=1, S=2, BODIES1=allb, BODIES2=allb, T=2, SEED=sd, NSHARD=5)),
                dict(module="MC_BodyBody.tla", tag="general-hulls", invariants=INVS, timeout=10000, batch=40,
                     constants=dict(NL2=4, SA=2, OFF=0, GENK={4, 5, 6}, NGEN=6000, S=2, BODIES1=set(), BODIES2={"cube", "tet2", "hexObl", "octa"}, T=2, SEED=sd, NSHARD=10))]
    jobs.append(dict(module="MC_BodyBody.tla", tag="nested", invariants=INVS, timeout=3600, batch=40,
                     constants=dict(NL2=4, SA=6, OFF=2, GENK=set(), NGEN=1, S=2, BODIES1={"cube", "box", "octa", "ppyr", "hprism"},
                                    BODIES2={"cube", "tet2", "octa", "sq", "triObl", "hexObl", "prism"}, T=1, SEED=sd, NSHARD=6 if tier == "quick" else 1)))
    jobs.append(dict(module="MC_BodyBody.tla", tag="coplanar-crossing", invariants=INVS, timeout=3600, batch=40,
                     constants=dict(NL2=1, SA=2, OFF=0, GENK=set(), NGEN=1, S=2, BODIES1={"stripH", "triUp", "sq"}, BODIES2={"stripV", "triDown", "stripH"},
                                    T=1, SEED=sd, NSHARD=2 if tier == "quick" else 1)))
    # faces with edges of generic slope stacked on a shared plane: the common part has non-dyadic (noisy) vertices
    jobs.append(dict(module="MC_BodyBody.tla", tag="generic-stacked", invariants=INVS, timeout=3600, batch=40,
                     constants=dict(NL2=4, SA=1, OFF=0, GENK=set(), NGEN=1, S=1, BODIES1={"gprismA", "gtriA"}, BODIES2={"gprismB", "gtriB", "cube", "box"},
                                    T=2, SEED=sd, NSHARD=1)))
    engine.run_jobs(res, jobs, pool)
    import traces
    traces.run_for(res, ["unit_tests", "driver", "sessions"] if tier != "quick" else ["unit_tests", "sessions"], {"C03"}, seed=seed + 2, nsessions=300 if tier == "quick" else 2500)


def replay_case(case, tag, rng, tier):
    a, b, exp, m = case["a"], case["b"], case["exp"], case["m"]
    s = case.get("s", 1)
    out = {"mism": [], "skipped": {}, "calls": 0, "cls": "|".join(case["cls"]), "nontrivial": exp["k"] != "None"}
    poses = common.poses_for((a, b, exp), rng, 1, s)
    if tag == "generic-stacked":
        poses = [common.p5_pose(rng, common.all_points(a, b), s) for _ in range(2)] + poses[1:]
    for pose in poses:
        num = common.num_for(rng, pose, (a, b))
        la, lb = common.build_variant(a, pose, num, rng), common.build_variant(b, pose, num, rng)
        for form, f in (("func", lambda: G.intersection(la, lb)), ("swapped", lambda: G.intersection(lb, la))):
            val, exc = call(f)
            out["calls"] += 1
            obs = exc or observe(val)
            why = R(obs, exp, pose)
            clause = "C03.inter." + form
            if not why and exc is None and val is not None:
                bad, n = common.check_measures(val, m, pose)
                out["calls"] += n
                if bad:
                    why, clause, obs = bad[0][1], "C03.measure." + bad[0][0], bad[0][2]
            if why:
                sig = {"op": "intersection", "form": form, "kinds": [a["k"], b["k"]], "exp": exp["k"], "obs": common.obs_kind(obs),
                       "touch": case["cls"][3]}
                mm, skip = common.mismatch(clause, sig, why, exp, obs, pose, (a, b))
                if mm:
                    out["mism"].append(mm)
                else:
                    out["skipped"][skip] = out["skipped"].get(skip, 0) + 1
    if not out["mism"]:
        out["sample"] = {"a": a, "b": b, "expected": exp, "measures": m}
    return out


def finish(res):
    return engine.report(
        res, rule="ordered pairs of the 22 catalogue bodies (scale 1/2), the second translated by every vector of the 5x5x5 half-lattice "
                  "box (sharded); both argument orders, 2 poses; result kind, vertex bijection, faces/edges and length/area/volume of "
                  "the returned object against the specification's exact measures; non-trivial = non-empty exact intersection",
        assumptions=["TLC/SANY", "relation R", "hash-boundary admission filter", "irrational poses are not claimed (DESIGN 9)"],
        invariants_note="Typed Symmetric InBoth ResultSane ProbesAgree VolMonotone on every state")
