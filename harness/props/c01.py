"""C01 - intersection of two flat primitives is exactly their common point set."""
import engine
from props import common

FLAT = ["Point", "Line", "HalfLine", "Segment", "Plane"]
INVS = ["AnalyticEqGeneric", "SaneGeneric", "Symmetric", "Typed", "ResultInBoth", "ProbesAgree", "Idempotent", "L2Refines", "DispatchOK", "Emit"]


def run(res, pool, tier, seed):
    if tier == "quick":
        jobs = [dict(module="MC_Flat.tla", tag="lat1",
                     constants=dict(B=1, KA=set(FLAT), KB=set(FLAT), SEED=seed % 1000, NSHARD=1, NBORING=12),
                     invariants=INVS, timeout=900)]
        res.exhaustive = False
    else:
        jobs = [dict(module="MC_Flat.tla", tag="lat1",
                     constants=dict(B=1, KA=set(FLAT), KB=set(FLAT), SEED=seed % 1000, NSHARD=1, NBORING=1),
                     invariants=INVS, timeout=3600),
                dict(module="MC_Flat.tla", tag="lat2",
                     constants=dict(B=2, KA=set(FLAT), KB=set(FLAT), SEED=seed % 1000, NSHARD=12, NBORING=6),
                     invariants=[i for i in INVS if i != "ProbesAgree"], timeout=7200)]
    engine.run_jobs(res, jobs, pool)
    import traces
    traces.run_for(res, ["unit_tests", "driver"], {"C01"}, seed=seed, nsessions=250 if tier == "quick" else 2500)


def replay_case(case, tag, rng, tier):
    forms = ("func", "method") if rng.random() < 0.25 else ("func",)
    return common.check_intersection(case, rng, 2, "C01.inter", forms)


def finish(res):
    return engine.report(
        res, rule="TLC enumerates all ordered pairs of flat objects over the lattice (first operand modulo translation); "
                  "every emitted case is replayed in 3 poses (identity + 2 seeded lattice similarities); a case is non-trivial "
                  "when the exact intersection is not empty (counted: distinct TLC states with non-None result)",
        assumptions=["TLC/SANY", "relation R (harness/geom.py)", "object builders", "hash-boundary admission filter",
                     "the L0 denotation Mem in G3DMem.tla"],
        invariants_note="AnalyticEqGeneric SaneGeneric Symmetric Typed ResultInBoth ProbesAgree Idempotent on every state")
