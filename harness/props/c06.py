"""C06 - length, area and volume equal the exact measures."""
import engine
from decimal import Decimal
from fractions import Fraction as Fr
from geom import G, observe, call, mk_point
from props import common, buildcase

INVS = ["PolygonOrderFree", "PolyhedronOrderFree", "MeasuresPositive", "Emit"]


def run(res, pool, tier, seed):
    engine.run_jobs(res, buildcase.jobs(tier, seed + 17, INVS), pool)
    import traces
    traces.run_for(res, ["unit_tests", "driver"], {"C06"}, seed=seed + 6, nsessions=250 if tier == "quick" else 2500)


def replay_case(case, tag, rng, tier):
    body, m = case["body"], case["m"]
    s = case.get("s", 1)
    out = {"mism": [], "skipped": {}, "calls": 0, "cls": buildcase.cls(case), "nontrivial": True}

    def bad(clause, why, obs, pose):
        sig = {"op": clause.split(".", 1)[1], "kind": body["k"], "obs": common.obs_kind(obs)}
        mm, skip = common.mismatch(clause, sig, why, {"measures": m, "form": case["form"]}, obs, pose, (body,))
        if mm:
            out["mism"].append(mm)
        else:
            out["skipped"][skip] = out["skipped"].get(skip, 0) + 1

    for pose in common.poses_for((body,), rng, 1, s):
        num = common.num_for(rng, pose, (body,))
        val, exc = call(buildcase.construct, case, pose, num, rng)
        out["calls"] += 1
        if exc is not None:
            continue                                   # construction itself is C09's business
        bads, n = common.check_measures(val, m, pose)
        out["calls"] += n
        for name, why, obs in bads:
            bad("C06." + name, why, obs, pose)
        want = common.expected_measures(m, pose)
        if rng.random() < 0.3:
            # measures are translation invariant: the object returned by one move and the receiver of a second, larger move
            # (and a deep copy taken in between) must all still have the exact measures
            from props.c07 import vec
            import copy
            sib, e1 = call(val.move, vec((1, 2, -1), pose, num))
            cp, _ = call(copy.deepcopy, val)
            _, e2 = call(val.move, vec((7, -5, 6), pose, num))
            out["calls"] += 2
            if e1 is None and e2 is None:
                for who, x in (("returned", sib), ("receiver", val), ("copy", cp)):
                    bads, n = common.check_measures(x, m, pose)
                    out["calls"] += n
                    for name, why, obs in bads:
                        bad("C06.%s_after_moves" % name, "%s of two moves: %s" % (who, why), obs, pose)
            continue
        if body["k"] == "Polyhedron":
            v, exc = call(G.volume, val)
            out["calls"] += 1
            if exc is not None:
                bad("C06.volume_function", "volume(x) raised %s at %s" % (exc["cls"], exc["site"]), exc, pose)
            elif "volume" in want and not abs(float(v) - want["volume"]) <= 1e-9 * want["volume"]:
                bad("C06.volume_function", "volume(x) = %r, exact %r" % (float(v), want["volume"]), observe(v), pose)
            # a pyramid over each face with a body vertex as apex: exact height and volume
            a = m.get("area")
            for i, (face, py) in enumerate(zip(case["faces"], case["pyr"])):
                if rng.random() > 0.35:
                    continue
                cpg = G.ConvexPolygon(tuple(mk_point(P, pose, num) for P in face["cyc"]))
                apex = mk_point(py["apex"], pose, num)
                pyr, exc = call(G.Pyramid, cpg, apex, False)
                out["calls"] += 1
                if exc is not None:
                    bad("C06.pyramid", "Pyramid(face, apex) raised %s" % exc["cls"], exc, pose)
                    continue
                lam = pose.lam
                h = float((Decimal(py["h2"][0]) / Decimal(py["h2"][1])).sqrt() * Decimal(lam.numerator) / Decimal(lam.denominator))
                hv, exc = call(pyr.height)
                if exc is not None or not abs(float(hv) - h) <= 1e-9 * h:
                    bad("C06.pyramid_height", "Pyramid.height %r, exact %r" % (hv, h), exc or observe(hv), pose)
                if a and a.get("den"):
                    l2 = lam * lam
                    area = float(Decimal(a["rs"][i]).sqrt() / Decimal(a["den"]) * Decimal(l2.numerator) / Decimal(l2.denominator))
                    for nm, f in (("pyramid_volume", pyr.volume), ("pyramid_volume_function", lambda: G.volume(pyr))):
                        pv, exc = call(f)
                        out["calls"] += 1
                        if exc is not None or not abs(float(pv) - area * h / 3) <= 1e-9 * area * h / 3:
                            bad("C06." + nm, "%s %r, exact %r" % (nm, pv, area * h / 3), exc or observe(pv), pose)
    if not out["mism"]:
        out["sample"] = {"body": body["k"], "form": case["form"], "measures": m}
    return out


def finish(res):
    return engine.report(
        res, rule="the construction cases of C09 (every presentation order / orientation / duplication chosen by TLC), 2 poses; length, "
                  "area, volume of the constructed object, volume(x), and Pyramid.height / volume over faces, against the exact "
                  "symbolic measures of the specification (sqrt evaluated with 50 digits); relative tolerance 1e-9",
        assumptions=["TLC/SANY", "evaluation of sqrt of exact radicands in the harness"],
        invariants_note="as C09; measures are functions of the abstract body, hence order independent by construction")
