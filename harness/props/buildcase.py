"""Construction cases emitted by MC_Build: a body presented in some order / orientation."""
from geom import G, mk_point, fl3, pclose, dot, norm
from geom import ConvexPolygon, ConvexPolyhedron

POLYH = ["tet", "tet2", "cube", "box", "obl", "prism", "pyr", "octa", "wedge", "pprism", "ppyr", "hprism"]
POLYG = ["tri", "triObl", "sq", "rectObl", "trap", "par", "pent", "pentObl", "hex", "hexObl", "stripH", "stripV", "triUp", "triDown"]


def jobs(tier, seed, invs):
    sd = seed % 1000
    if tier == "quick":
        return [dict(module="MC_Build.tla", tag="catalogue", invariants=invs, timeout=1500, batch=100,
                     constants=dict(S=1, BODIES=set(POLYH + POLYG), GENK={4}, GENC=2, SEED=sd, NSHARD=3, NGEN=40))]
    return [dict(module="MC_Build.tla", tag="catalogue", invariants=invs, timeout=7200, batch=100,
                 constants=dict(S=1, BODIES=set(POLYH + POLYG), GENK=set(), GENC=2, SEED=sd, NSHARD=1, NGEN=1)),
            dict(module="MC_Build.tla", tag="general-hulls", invariants=invs, timeout=7200, batch=100,
                 constants=dict(S=1, BODIES=set(), GENK={4, 5, 6}, GENC=2, SEED=sd, NSHARD=6, NGEN=60))]


def polygon_input(case, pose, num):
    body, form = case["body"], case["form"]
    cyc = body["cyc"]
    seq = [cyc[i - 1] for i in form["perm"]]
    if form["dup"] == 1:
        seq = seq + [seq[0]]
    elif form["dup"] == 2:
        seq = [seq[0], seq[-1]] + seq[1:]
    elif form["dup"] == 3:
        seq = [seq[0]] + seq
    elif form["dup"] == 4:
        seq = [seq[0], seq[1], seq[0]] + seq[2:]
    return [mk_point(P, pose, num) for P in seq]


def polyhedron_input(case, pose, num, rng):
    faces, form = case["faces"], case["form"]
    rev = set(form["rev"])
    out = []
    for j in form["perm"]:
        cyc = list(faces[j - 1]["cyc"])
        if j in rev:
            cyc = cyc[::-1]
        r = rng.randrange(len(cyc))
        cyc = cyc[r:] + cyc[:r]            # the start vertex of a face is irrelevant
        out.append(ConvexPolygon(tuple(mk_point(P, pose, num) for P in cyc)))
    return out


def construct(case, pose, num, rng):
    if case["body"]["k"] == "Polygon":
        return ConvexPolygon(tuple(polygon_input(case, pose, num)))
    return ConvexPolyhedron(tuple(polyhedron_input(case, pose, num, rng)))


def cls(case):
    b, f = case["body"], case["form"]
    n = len(b["cyc"]) if b["k"] == "Polygon" else len(case["faces"])
    return "%s|n=%d|dup=%d|rev=%s" % (b["k"], n, f["dup"], "some" if f["rev"] else "none")
