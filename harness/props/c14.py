"""C14 - shape builders produce the specified inscribed shapes for every pose."""
import math
from fractions import Fraction as Fr

import engine
from geom import G, R, observe, call, fl3, dot, cross, norm, Point, Vector, IDENT
from props import common

INVS = ["EulerOK", "Square4OK", "PipedVolOK", "PgramAreaOK", "Emit"]
TWO_PI = 2.0 * math.pi


def run(res, pool, tier, seed):
    sd = seed % 1000
    if tier == "quick":
        jobs = [dict(module="MC_Shapes.tla", tag="shapes", invariants=INVS, timeout=1500, batch=40,
                     constants=dict(NS={3, 4, 5, 7, 10, 12, 24}, N1S={3, 4, 7, 12}, N2S={2, 3, 5}, B=1, SEED=sd, NSHARD=25))]
    else:
        jobs = [dict(module="MC_Shapes.tla", tag="shapes", invariants=INVS, timeout=7200, batch=40,
                     constants=dict(NS=set(range(3, 25)), N1S=set(range(3, 13)), N2S={2, 3, 4, 5}, B=1, SEED=sd, NSHARD=12))]
    engine.run_jobs(res, jobs, pool)


def ev(e):
    op = e["op"]
    if op == "rat":
        return e["q"][0] / e["q"][1]
    if op == "sin":
        return math.sin(TWO_PI * e["q"][0] / e["q"][1])
    if op == "cos":
        return math.cos(TWO_PI * e["q"][0] / e["q"][1])
    if op == "sqrt":
        return math.sqrt(ev(e["a"][0]))
    if op == "mul":
        r = 1.0
        for x in e["a"]:
            r *= ev(x)
        return r
    if op == "add":
        return math.fsum(ev(x) for x in e["a"])
    raise ValueError(op)


def sub(a, b):
    return (a[0] - b[0], a[1] - b[1], a[2] - b[2])


def close(x, y, rel=1e-9):
    return abs(x - y) <= rel * max(abs(y), 1e-12)


def replay_case(case, tag, rng, tier):
    c = case["c"]
    b = c["b"]
    out = {"mism": [], "skipped": {}, "calls": 0, "nontrivial": True}
    axis_zero = sum(1 for x in c["ax"] if x == 0)
    out["cls"] = "%s|n=%s|axis_zeros=%d" % (b, c["n"], axis_zero)

    def bad(clause, why, obs=None):
        sig = {"op": clause.split(".", 1)[1], "builder": b, "n": c["n"], "axis": c["ax"] if axis_zero == 2 else "oblique"}
        if obs and obs.get("k") == "Exception":
            sig["obs"] = common.obs_kind(obs)
        m, _ = common.mismatch(clause, sig, why, {"case": c}, obs or {"k": "-"}, IDENT, [])
        out["mism"].append(m)

    o = Point(*[float(x) for x in c["o"]])
    if b in ("Parallelogram", "Parallelepiped"):
        vs = [Vector(*[float(x) for x in v]) for v in c["vs"]]
        before = (fl3(o), [fl3(v) for v in vs])
        f = (lambda: G.Parallelogram(o, vs[0], vs[1])) if b == "Parallelogram" else (lambda: G.Parallelepiped(o, vs[0], vs[1], vs[2]))
        val, exc = call(f)
        out["calls"] += 1
        if exc is not None:
            bad("C14.raises", "%s raised %s at %s: %s" % (b, exc["cls"], exc["site"], exc["msg"]), exc)
            return out
        why = R(observe(val), case["body"], IDENT)
        if why:
            bad("C14.structure", why, observe(val))
        else:
            bads, n = common.check_measures(val, case["m"], IDENT)
            out["calls"] += n
            for name, w, ob in bads:
                bad("C14.measure_" + name, w, ob)
        if (fl3(o), [fl3(v) for v in vs]) != before:
            bad("C14.arguments_modified", "the builder modified its arguments")
        if not out["mism"]:
            out["sample"] = {"builder": b, "base": c["o"], "vectors": c["vs"]}
        return out

    shape = case["shape"]
    r = c["r"][0] / c["r"][1]
    ax = Vector(*[float(x) for x in c["ax"]])
    before = (fl3(o), fl3(ax))
    n = c["n"]
    if b == "Circle":
        f = lambda: G.Circle(o, ax, r, n)
    elif b == "Cylinder":
        f = lambda: G.Cylinder(o, r, ax, n)
    elif b == "Cone":
        f = lambda: G.Cone(o, r, ax, n)
    else:
        f = lambda: G.Sphere(o, r, n, c["n2"])
    val, exc = call(f)
    out["calls"] += 1
    if exc is not None:
        bad("C14.raises", "%s raised %s at %s: %s" % (b, exc["cls"], exc["site"], exc["msg"]), exc)
        return out
    if (fl3(o), fl3(ax)) != before:
        bad("C14.arguments_modified", "the builder modified its arguments")
    cen = fl3(o)
    a = fl3(ax)
    la = norm(a)
    u = (a[0] / la, a[1] / la, a[2] / la)
    if b == "Circle":
        pts = [fl3(p) for p in val.points]
        counts = (len(pts), len(pts), 1)
    else:
        pts = [fl3(p) for p in val.point_set]
        counts = (len(val.point_set), len(val.segment_set), len(val.convex_polygons))
    if counts != (shape["V"], shape["E"], shape["F"]):
        bad("C14.counts", "V,E,F = %r, specified %r" % (counts, (shape["V"], shape["E"], shape["F"])))
        return out
    chord = 2 * r * math.sin(math.pi / n)
    tol = 1e-9 * max(1.0, r, norm(cen))

    def on_ring(ps, centre, radius, what):
        for p in ps:
            d = sub(p, centre)
            if abs(dot(d, u)) > tol or abs(norm(d) - radius) > tol:
                bad("C14.vertex_position", "%s: a vertex is not on the specified circle (|d|=%r, radius %r, axial %r)" % (what, norm(d), radius, dot(d, u)))
                return False
        ch = 2 * radius * math.sin(math.pi / n)
        for p in ps:
            k = sum(1 for q in ps if q is not p and abs(norm(sub(p, q)) - ch) <= tol)
            if k != 2 and not (n == 4 and k == 2) and not (len(ps) == 3 and k == 2):
                bad("C14.angular_steps", "%s: vertices are not at equal angular steps (%d neighbours at chord distance)" % (what, k))
                return False
        return True

    if b == "Circle":
        if on_ring(pts, cen, r, "circle"):
            for i in range(n):
                if abs(norm(sub(pts[i], pts[(i + 1) % n])) - chord) > tol:
                    bad("C14.angular_steps", "consecutive .points are not one angular step apart")
                    break
    elif b == "Cylinder":
        top = (cen[0] + a[0], cen[1] + a[1], cen[2] + a[2])
        lo = [p for p in pts if abs(dot(sub(p, cen), u)) <= tol]
        hi = [p for p in pts if abs(dot(sub(p, top), u)) <= tol]
        if len(lo) != n or len(hi) != n:
            bad("C14.vertex_position", "cylinder vertices are not on the two specified circles (%d bottom, %d top)" % (len(lo), len(hi)))
        else:
            on_ring(lo, cen, r, "bottom circle") and on_ring(hi, top, r, "top circle")
    elif b == "Cone":
        apex = (cen[0] + a[0], cen[1] + a[1], cen[2] + a[2])
        ap = [p for p in pts if norm(sub(p, apex)) <= tol]
        base = [p for p in pts if norm(sub(p, apex)) > tol]
        if len(ap) != 1 or len(base) != n:
            bad("C14.vertex_position", "cone apex is not at centre + height vector")
        else:
            on_ring(base, cen, r, "base circle")
    else:
        n2 = c["n2"]
        ok = True
        rings = {}
        for p in pts:
            d = sub(p, cen)
            if abs(norm(d) - r) > tol:
                bad("C14.vertex_position", "a sphere vertex is at distance %r from the centre (radius %r)" % (norm(d), r))
                ok = False
                break
            rings.setdefault(round(d[2] / r, 7), []).append(p)
        if ok:
            want = sorted({round(s * math.sin(math.pi / 2 * j / n2), 7) for j in range(n2) for s in (1, -1)} | {1.0, -1.0})
            if sorted(rings) != want:
                bad("C14.vertex_position", "sphere rings are not at equal latitude steps: %r" % sorted(rings))
            else:
                for z, ps in rings.items():
                    if abs(abs(z) - 1.0) < 1e-9:
                        if len(ps) != 1:
                            bad("C14.vertex_position", "a pole is duplicated")
                    elif len(ps) != n:
                        bad("C14.vertex_position", "a latitude ring has %d vertices instead of %d" % (len(ps), n))
    for name in ("area", "volume", "length"):
        e = shape.get(name)
        if e is None or e == {"op": "rat", "q": [0, 1]}:
            continue
        want = ev(e)
        got, exc = call(getattr(val, name))
        out["calls"] += 1
        if exc is not None or not close(float(got), want):
            bad("C14.closed_form_" + name, "%s() = %r, closed form of the inscribed shape %r" % (name, got if exc is None else exc["cls"], want), exc)
    if not out["mism"]:
        out["sample"] = {"builder": b, "centre": c["o"], "radius": c["r"], "axis": c["ax"], "n": n, "n2": c["n2"],
                         "counts": [shape["V"], shape["E"], shape["F"]]}
    return out


def finish(res):
    return engine.report(
        res, rule="Circle/Cylinder/Cone over lattice centres x radii {1/2,1,3/2,5,31/4} x all 26 lattice directions + Pythagorean and near-axis "
                  "directions x resolutions; Sphere over n1 x n2; Parallelogram/Parallelepiped over independent lattice pairs/triples "
                  "(sharded); counts, vertex positions, equal angular steps, closed-form area/volume/length (expression trees emitted by the "
                  "specification, evaluated in float, rel. 1e-9), argument immutability",
        assumptions=["TLC/SANY", "trigonometric values are named by the specification and evaluated by the harness (DESIGN 9)",
                     "vertex-on-circle tests are float arithmetic in the harness"],
        invariants_note="EulerOK (counts as functions of n satisfy V-E+F=2) Square4OK (closed form exact at n=4) PipedVolOK PgramAreaOK")
