"""C04 - intersection is total, symmetric and typed over all 49 operand type pairs."""
import engine
from geom import G, R, observe, call, build
from props import common

FLAT = ["Point", "Line", "HalfLine", "Segment", "Plane"]
POLYH = ["tet2", "cube", "obl", "prism", "pyr", "octa", "ppyr"]
POLYG = ["triObl", "sq", "trap", "par", "pentObl", "hexObl"]
KIND = {"None": "None", "Point": "Point", "Line": "Line", "HalfLine": "HalfLine", "Segment": "Segment", "Plane": "Plane",
        "Polygon": "Polygon", "Polyhedron": "Polyhedron"}


def run(res, pool, tier, seed):
    sd = seed % 1000
    q = tier == "quick"
    jobs = [dict(module="MC_Flat.tla", tag="flat", invariants=["Typed", "Symmetric", "Emit"], timeout=3600,
                 constants=dict(B=1, KA=set(FLAT), KB=set(FLAT), SEED=sd, NSHARD=6 if q else 1, NBORING=8 if q else 2)),
            dict(module="MC_FlatBody.tla", tag="flatbody", invariants=["Typed", "Emit"], timeout=3600,
                 constants=dict(NL2=4, SA=2, OFF=0, GENK=set(), NGEN=1, S=2, BODIES=set(POLYH + POLYG), KF=set(FLAT), SEED=sd + 1, NSHARD=90 if q else 8, NXCHECK=1000)),
            dict(module="MC_BodyBody.tla", tag="bodybody", invariants=["Typed", "Symmetric", "Emit"], timeout=7200, batch=40,
                 constants=dict(NL2=4, SA=2, OFF=0, GENK=set(), NGEN=1, S=2, BODIES1=set(POLYH + POLYG), BODIES2=set(POLYH + POLYG), T=2, SEED=sd + 2, NSHARD=40 if q else 4))]
    jobs.append(dict(module="MC_BodyBody.tla", tag="nested", invariants=["Typed", "Symmetric", "Emit"], timeout=3600, batch=40,
                     constants=dict(NL2=4, SA=6, OFF=2, GENK=set(), NGEN=1, S=2, BODIES1={"cube", "octa", "ppyr"}, BODIES2={"cube", "tet2", "sq", "triObl"},
                                    T=1, SEED=sd + 3, NSHARD=8 if q else 1)))
    jobs.append(dict(module="MC_BodyBody.tla", tag="generic-stacked", invariants=["Typed", "Symmetric", "Emit"], timeout=3600, batch=40,
                     constants=dict(NL2=4, SA=1, OFF=0, GENK=set(), NGEN=1, S=1, BODIES1={"gprismA", "gtriA"}, BODIES2={"gprismB", "gtriB", "cube", "box"},
                                    T=2, SEED=sd + 4, NSHARD=1)))
    engine.run_jobs(res, jobs, pool)
    import traces
    traces.run_for(res, ["unit_tests", "driver"], {"C04"}, seed=seed + 9, nsessions=250 if q else 2500)
    res.extra["cells_seen"] = sorted({k.split("|")[0] + "|" + k.split("|")[1] for k in res.classes})


BAD_EXC = ("NotImplementedError",)


def replay_case(case, tag, rng, tier):
    a, b, exp, doc = case["a"], case["b"], case["exp"], case["doc"]
    s = case.get("s", 1)
    out = {"mism": [], "skipped": {}, "calls": 0, "nontrivial": exp["k"] != "None"}
    cells = [(a["k"], b["k"]), (b["k"], a["k"])]
    out["cls"] = "%s|%s|%s" % (a["k"], b["k"], exp["k"])
    pose = common.poses_for((a, b, exp), rng, 1, s)[rng.randint(0, 1)]
    if tag == "generic-stacked" and rng.random() < 0.8:
        pose = common.p5_pose(rng, common.all_points(a, b), s)
    num = common.num_for(rng, pose, (a, b))
    la, lb = common.build_variant(a, pose, num, rng), common.build_variant(b, pose, num, rng)
    calls = [("func", a, b, lambda: G.intersection(la, lb)), ("func", b, a, lambda: G.intersection(lb, la))]
    if a["k"] != "Point":
        calls.append(("method", a, b, lambda: la.intersection(lb)))
    if b["k"] != "Point":
        calls.append(("method", b, a, lambda: lb.intersection(la)))
    calls.append(("none_right", a, None, lambda: G.intersection(la, None)))
    calls.append(("none_left", None, b, lambda: G.intersection(None, lb)))
    for form, x, y, f in calls:
        val, exc = call(f)
        out["calls"] += 1
        obs = exc or observe(val)
        want = exp if (x is not None and y is not None) else {"k": "None"}
        why, clause = None, "C04.%s" % form
        if obs["k"] == "Exception":
            why = "raised %s at %s: %s" % (obs["cls"], obs["site"], obs["msg"])
            clause = "C04.total"
        elif x is not None and y is not None and obs["k"] not in doc:
            why = "result kind %s is not documented for (%s, %s): %s" % (obs["k"], x["k"], y["k"], doc)
            clause = "C04.typed"
        else:
            why = R(obs, want, pose)
            if why:
                clause = "C04.same_set.%s" % form
        if why:
            sig = {"op": "intersection", "form": form, "kinds": [x["k"] if x else "None", y["k"] if y else "None"],
                   "exp": want["k"], "obs": common.obs_kind(obs)}
            m, skip = common.mismatch(clause, sig, why, want, obs, pose, (a, b))
            if m:
                out["mism"].append(m)
            else:
                out["skipped"][skip] = out["skipped"].get(skip, 0) + 1
    if not out["mism"]:
        out["sample"] = {"a": a, "b": b, "expected": exp, "documented_kinds": doc,
                         "calls": "intersection(a,b), intersection(b,a), a.intersection(b), b.intersection(a), with None"}
    return out


def finish(res):
    cells = [c for c in res.extra.get("cells_seen", []) if "|" in c]
    ordered = set()
    for c in cells:
        x, y = c.split("|")
        ordered.add((x, y))
        ordered.add((y, x))
    res.extra["ordered_cells_exercised"] = len(ordered)
    if len(ordered) != 49:
        print("MACHINERY: only %d of the 49 ordered type pairs were exercised" % len(ordered))
        engine.report(res, rule="", assumptions=[])
        return 2
    return engine.report(
        res, rule="cases from the three intersection universes (flat x flat on the lattice, flat x catalogue body, body x body); every case is "
                  "called as f(a,b), f(b,a), a.intersection(b), b.intersection(a), f(a,None), f(None,b) in one seeded pose; all 49 ordered "
                  "type pairs must be exercised (asserted); non-trivial = non-empty exact intersection",
        assumptions=["TLC/SANY", "relation R", "DocKinds table transcribed from docs/source/example_operation.rst"],
        invariants_note="Typed (geometry agrees with the documented kinds) and Symmetric on every state of the specification")
