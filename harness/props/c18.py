"""C18 - vector arithmetic is exact component algebra and preserves numeric type."""
import math
import os
import shutil
import subprocess
import time
from decimal import Decimal
from fractions import Fraction as Fr

import engine
import tlcio
from geom import G, call, Point, Vector
from props import common

INVS = ["Identities", "PromotionIdempotent", "Emit", "EmitPromotion"]


def run(res, pool, tier, seed):
    jobs = [dict(module="MC_Vec.tla", tag="grid", invariants=INVS, batch=200,
                 constants=dict(GRID="<- GridDef", SEED=seed % 1000, NSHARD=4 if tier == "quick" else 1))]
    engine.run_jobs(res, jobs, pool)
    # TLAPS: the identities for all integers
    res.extra["tlaps"] = tlcio.run_tlaps("Proofs_G3DVec.tla", ["CrossOrthogonalA", "CrossOrthogonalB", "CrossAntiCommutes", "Lagrange", "DotSymmetricBilinear"])


# ------------------------------------------------------------------------------------------
class Poly:
    """integer polynomial in the six indeterminates a1..a3, b1..b3: the user-defined ring type pushed through the real code"""
    __slots__ = ("t",)

    def __init__(self, v=0):
        if isinstance(v, Poly):
            self.t = dict(v.t)
        elif isinstance(v, dict):
            self.t = {k: c for k, c in v.items() if c != 0}
        else:
            self.t = {(0,) * 6: Fr(v)} if v != 0 else {}

    @staticmethod
    def var(i):
        e = [0] * 6
        e[i] = 1
        return Poly({tuple(e): Fr(1)})

    def _c(self, o):
        return o if isinstance(o, Poly) else Poly(o)

    def __add__(self, o):
        o = self._c(o)
        t = dict(self.t)
        for k, c in o.t.items():
            t[k] = t.get(k, 0) + c
        return Poly(t)
    __radd__ = __add__

    def __neg__(self):
        return Poly({k: -c for k, c in self.t.items()})

    def __sub__(self, o):
        return self + (-self._c(o))

    def __rsub__(self, o):
        return self._c(o) - self

    def __mul__(self, o):
        if isinstance(o, Vector):
            return NotImplemented             # scalar * vector is the Vector's business (__rmul__)
        o = self._c(o)
        t = {}
        for k1, c1 in self.t.items():
            for k2, c2 in o.t.items():
                k = tuple(x + y for x, y in zip(k1, k2))
                t[k] = t.get(k, 0) + c1 * c2
        return Poly(t)
    __rmul__ = __mul__

    def __eq__(self, o):
        raise TypeError("the code compared a coordinate value")

    def __ne__(self, o):
        raise TypeError("the code compared a coordinate value")

    def same(self, o):
        return self.t == self._c(o).t

    def __hash__(self):
        return hash(tuple(sorted(self.t.items())))

    def __bool__(self):
        raise TypeError("the code branched on a coordinate value")

    def __lt__(self, o):
        raise TypeError("the code compared a coordinate value")
    __gt__ = __le__ = __ge__ = __lt__

    def __format__(self, spec):
        return "poly"

    def __repr__(self):
        return "Poly(%r)" % (self.t,)

    def at(self, vals):
        s = Fr(0)
        for k, c in self.t.items():
            m = c
            for e, v in zip(k, vals):
                m *= Fr(v) ** e
            s += m
        return s

    def maxdeg(self):
        return max((max(k) for k in self.t), default=0)


_SYM = {}


def symbolic():
    """push indeterminates through the real code once per process: the library's result polynomials"""
    if _SYM:
        return _SYM
    a = [Poly.var(i) for i in range(3)]
    b = [Poly.var(i + 3) for i in range(3)]
    va, vb = Vector(*a), Vector(*b)
    _SYM["add"] = list(va + vb)
    _SYM["sub"] = list(va - vb)
    _SYM["neg"] = list(-va)
    _SYM["smul"] = list(va * 3)
    _SYM["rsmul"] = list(3 * va)
    _SYM["dot"] = [va * vb]
    _SYM["cross"] = list(va.cross(vb))
    _SYM["frompts"] = list(Vector(Point(*a), Point(*b)))
    return _SYM


CONV = {"int": int, "fraction": Fr, "decimal": Decimal, "float": float, "user": Poly}
PYTYPE = {"int": int, "fraction": Fr, "decimal": Decimal, "float": float, "user": Poly}


def replay_case(case, tag, rng, tier):
    out = {"mism": [], "skipped": {}, "calls": 0, "nontrivial": True, "cls": "grid"}

    def bad(clause, why, sig):
        m, _ = common.mismatch(clause, sig, why, {}, {"k": "-"}, common.geom.IDENT, [])
        out["mism"].append(m)

    if "promotion" in case:
        out["cls"] = "promotion"
        for trip, want in case["promotion"]:
            vals = [CONV[t](i + 1) for i, t in enumerate(trip)]
            for nm, ctor in (("Vector", lambda: Vector(*vals)), ("Point", lambda: Point(*vals)), ("Vector_list", lambda: Vector(list(vals))),
                             ("Point_list", lambda: Point(list(vals))), ("Point_tuple", lambda: Point(tuple(vals)))):
                v, exc = call(ctor)
                out["calls"] += 1
                comps = None if exc is not None else [v[0], v[1], v[2]]
                if exc is not None or any(type(c) is not PYTYPE[want] for c in comps) or any(
                        not (c.same(i + 1) if isinstance(c, Poly) else c == i + 1) for i, c in enumerate(comps)):
                    bad("C18.promotion", "%s(%s) has component types %s, most general type is %s" % (
                        nm, trip, exc["cls"] if exc else [type(c).__name__ for c in comps], want), {"op": "promotion", "ctor": nm, "types": trip})
        out["sample"] = {"promotion_table_entries": len(case["promotion"])}
        return out
    a, b, k = case["a"], case["b"], case["k"]
    exp = {"add": case["add"], "sub": case["sub"], "neg": case["neg"], "smul": case["smul"], "rsmul": case["smul"],
           "dot": [case["dot"]], "cross": case["cross"], "frompts": case["frompts"]}
    # (1) symbolic: the library's result polynomials evaluated at this grid point, and their degrees
    sym, exc = call(symbolic)
    if exc is not None:
        bad("C18.symbolic_raises", "pushing indeterminates through the code raised %s at %s: %s" % (exc["cls"], exc["site"], exc["msg"]), {"op": "symbolic"})
    else:
        for op, polys in sym.items():
            out["calls"] += 1
            got = [p.at(a + b) if isinstance(p, Poly) else Fr(p) for p in polys]
            deg = max((p.maxdeg() for p in polys if isinstance(p, Poly)), default=0)
            if got != [Fr(x) for x in exp[op]] or deg > 1:
                bad("C18.formula", "%s: the code's polynomial gives %s at a=%s b=%s, component formula gives %s (max degree %d)" % (
                    op, [str(x) for x in got], a, b, exp[op], deg), {"op": op, "what": "formula"})
    # (2) concrete types: exact value and exact type
    for tname in ("int", "fraction", "decimal", "float", "user"):
        cv = CONV[tname]
        va, vb = Vector(*[cv(x) for x in a]), Vector(*[cv(x) for x in b])
        ops = {"add": lambda: list(va + vb), "sub": lambda: list(va - vb), "neg": lambda: list(-va), "smul": lambda: list(va * (cv(k) if rng.random() < 0.5 else k)),
               "rsmul": lambda: list((cv(k) if rng.random() < 0.5 else k) * va), "dot": lambda: [va * vb], "cross": lambda: list(va.cross(vb)),
               "frompts": lambda: list(Vector(Point(*[cv(x) for x in a]), Point(*[cv(x) for x in b])))}
        for op, f in ops.items():
            got, exc = call(f)
            out["calls"] += 1
            if exc is not None:
                bad("C18.raises", "%s on %s coordinates raised %s" % (op, tname, exc["cls"]), {"op": op, "type": tname, "what": "raises"})
                continue
            want = [cv(x) for x in exp[op]]
            if len(got) != len(want) or any(not (g.same(w) if isinstance(g, Poly) else (g == w)) for g, w in zip(got, want)):
                bad("C18.value", "%s on %s coordinates gave %r, exact %r" % (op, tname, got, want), {"op": op, "type": tname, "what": "value"})
            elif any(type(g) is not PYTYPE[tname] for g in got):
                bad("C18.type", "%s on %s coordinates returned components of type %s" % (op, tname, [type(g).__name__ for g in got]),
                    {"op": op, "type": tname, "what": "type"})
    # (2b) two vectors of different coordinate types for which Python's arithmetic is defined: the component formulas evaluated by
    #      Python on the raw components give the exact value AND the type (e.g. Decimal with int stays Decimal, never float)
    for ta, tb in (("int", "fraction"), ("fraction", "int"), ("int", "decimal"), ("decimal", "int"), ("int", "float"), ("float", "int"),
                   ("fraction", "float"), ("int", "user"), ("user", "int"), ("user", "fraction")):
        ca, cb = [CONV[ta](x) for x in a], [CONV[tb](x) for x in b]
        va, vb = Vector(*ca), Vector(*cb)
        formulas = {"add": [x + y for x, y in zip(ca, cb)], "sub": [x - y for x, y in zip(ca, cb)],
                    "dot": [ca[0] * cb[0] + ca[1] * cb[1] + ca[2] * cb[2]],
                    "cross": [ca[1] * cb[2] - ca[2] * cb[1], ca[2] * cb[0] - ca[0] * cb[2], ca[0] * cb[1] - ca[1] * cb[0]]}
        ops = {"add": lambda: list(va + vb), "sub": lambda: list(va - vb), "dot": lambda: [va * vb], "cross": lambda: list(va.cross(vb))}
        for op, f in ops.items():
            got, exc = call(f)
            out["calls"] += 1
            sig = {"op": op, "type": ta + "+" + tb, "what": "mixed"}
            if exc is not None:
                bad("C18.raises", "%s on %s and %s vectors raised %s" % (op, ta, tb, exc["cls"]), sig)
                continue
            want = formulas[op]
            if len(got) != len(want) or any(not (g.same(w) if isinstance(g, Poly) else (not isinstance(w, Poly) and g == w)) for g, w in zip(got, want)):
                bad("C18.value", "%s on %s and %s vectors gave %r, component formula %r" % (op, ta, tb, got, want), sig)
            elif any(type(g) is not type(w) for g, w in zip(got, want)):
                bad("C18.type", "%s on %s and %s vectors returned components of type %s, the component formula gives %s" % (
                    op, ta, tb, [type(g).__name__ for g in got], [type(w).__name__ for w in want]), sig)
    # (3) length, normalized/unit, angle over magnitudes 1e-6 .. 1e6
    if case["len2"] > 0:
        for tname in ("int", "float", "fraction"):
            mags = (1,) if tname == "int" else (1, rng.choice((1e-6, 1e-3, 1e3, 1e6, 0.5, 8)))
            for mag in mags:
                cv = CONV[tname]
                sc = (lambda x: cv(x)) if mag == 1 else (lambda x: cv(x) * cv(mag) if tname == "fraction" else float(x) * mag)
                va = Vector(*[sc(x) for x in a])
                want = math.sqrt(case["len2"]) * mag
                L, exc = call(va.length)
                out["calls"] += 1
                if exc is not None or not abs(float(L) - want) <= 1e-9 * want:
                    bad("C18.length", "length of %s vector = %r, exact %r" % (tname, exc["cls"] if exc else L, want), {"op": "length", "type": tname})
                for nm in ("normalized", "unit"):
                    u, exc = call(getattr(va, nm))
                    if exc is not None:
                        bad("C18.normalized", "%s raised %s" % (nm, exc["cls"]), {"op": nm, "type": tname})
                        continue
                    fu = [float(x) for x in u]
                    nu = math.sqrt(sum(x * x for x in fu))
                    fa = [float(x) for x in va]
                    cr = [fu[1] * fa[2] - fu[2] * fa[1], fu[2] * fa[0] - fu[0] * fa[2], fu[0] * fa[1] - fu[1] * fa[0]]
                    if abs(nu - 1) > 1e-9 or math.sqrt(sum(x * x for x in cr)) > 1e-9 * want or sum(x * y for x, y in zip(fu, fa)) <= 0:
                        bad("C18.normalized", "%s(v) is not the unit vector in the direction of v" % nm, {"op": nm, "type": tname})
                if case["cos2"][1] != 0:
                    vb = Vector(*[cv(x) for x in b])
                    ang, exc = call(va.angle, vb)
                    out["calls"] += 1
                    c = case["dotsign"] * math.sqrt(case["cos2"][0] / case["cos2"][1])
                    wa = math.acos(max(-1.0, min(1.0, c)))
                    if exc is not None or not (abs(float(ang) - wa) <= 1e-7 and -1e-12 <= float(ang) <= math.pi + 1e-12):
                        bad("C18.angle", "angle = %r, exact %r" % (exc["cls"] if exc else ang, wa), {"op": "angle", "type": tname})
    # zero and unit vectors (also after a previously returned one was mutated in place)
    if rng.random() < 0.2:
        for nm in ("zero", "x_unit_vector", "y_unit_vector", "z_unit_vector"):
            v, exc = call(getattr(Vector, nm))
            if exc is None:
                v[rng.randrange(3)] = 7
    for nm, want in (("zero", [0, 0, 0]), ("x_unit_vector", [1, 0, 0]), ("y_unit_vector", [0, 1, 0]), ("z_unit_vector", [0, 0, 1])):
        v, exc = call(getattr(Vector, nm))
        if exc is not None or list(v) != want:
            bad("C18.named_vectors", "Vector.%s() = %r" % (nm, v), {"op": nm})
    if not out["mism"]:
        out["sample"] = {"a": a, "b": b, "expected": {"cross": case["cross"], "dot": case["dot"]}}
    return out


def finish(res):
    tl = res.extra.get("tlaps", {})
    return engine.report(
        res, rule="all pairs of vectors over the grid {-1,0,1,2}^6 (sharded in the quick tier): (1) the polynomials obtained by pushing six "
                  "indeterminates through the real code are evaluated at the grid point and must equal the specification's component formulas, "
                  "with degree <= 1 in every indeterminate and no comparison on a coordinate (=> identical polynomials, for all inputs); (2) exact "
                  "value and exact component type for int / Fraction / Decimal / float / user ring type; (3) length, normalized, unit, angle over "
                  "magnitudes 1e-6..1e6; the 125-entry promotion table; TLAPS proves the identities for all integers (%s obligations)" % tl.get("obligations"),
        assumptions=["TLC/SANY", "TLAPS + Z3 for the identities", "multilinear polynomial identity argument (DESIGN 8 C18)",
                     "Decimal / float rounding is observed only on exactly representable inputs"],
        invariants_note="Identities PromotionIdempotent on every grid state; Proofs_G3DVec (10 obligations) for all integers")
