"""C17 - plane and line forms round-trip to the same object."""
import engine
from geom import (G, R, observe, call, build, mk_point, mk_vector, fl3, dot, cross, norm, parallel_dir, Point, Vector, Line, Plane)
from props import common

INVS = ["GeneralFormOK", "ThreePointsOK", "LineFormsOK", "Emit"]


def run(res, pool, tier, seed):
    q = tier == "quick"
    jobs = [dict(module="MC_Forms.tla", tag="forms", invariants=INVS, batch=60, timeout=3600,
                 constants=dict(E=2, B=2, SEED=seed % 1000, NSHARD=3 if q else 1))]
    engine.run_jobs(res, jobs, pool)


def replay_case(case, tag, rng, tier):
    t, o = case["t"], case["o"]
    n = o["n"] if t != "line" else o["u"]
    zeros = sum(1 for x in n if x == 0)
    out = {"mism": [], "skipped": {}, "calls": 0, "nontrivial": zeros > 0 or n[0] < 0,
           "cls": "%s|zeros=%d|lead=%s" % (t, zeros, "neg" if [x for x in n if x][0] < 0 else "pos")}

    def bad(clause, why, pose, obs=None):
        sig = {"op": clause.split(".", 1)[1], "t": t, "zero_pattern": [int(x == 0) for x in n]}
        m, skip = common.mismatch(clause, sig, why, {"o": o, "q": case["q"]}, obs or {"k": "-"}, pose, [o])
        if m:
            out["mism"].append(m)
        else:
            out["skipped"][skip] = out["skipped"].get(skip, 0) + 1

    def expect(val, exc, clause, pose, want=None):
        out["calls"] += 1
        why = R(exc or observe(val), want or o, pose)
        if why:
            bad(clause, why, pose, exc or observe(val))
            return False
        return True

    if t == "gf":
        a, b, c, d = case["q"]
        for num, conv in (("int", int), ("float", float)):
            pose = common.geom.IDENT
            P, exc = call(Plane, conv(a), conv(b), conv(c), conv(d))
            if not expect(P, exc, "C17.general_form_ctor", pose):
                continue
            for pts, want in ((case["on"], True), (case["off"], False)):
                for X in pts:
                    val, exc = call(lambda: mk_point(X, pose, "float") in P)
                    out["calls"] += 1
                    if exc is not None or val is not want:
                        bad("C17.general_form_points", "Plane(%s,%s,%s,%s) %s a point with a x + b y + c z %s d" % (
                            a, b, c, d, "lacks" if want else "contains", "=" if want else "!="), pose)
                        break
            roundtrips(P, o, pose, expect, bad, out, case)
        return finish_case(out, case)
    for pose in common.poses_for([o], rng, 1, 1):
        num = rng.choice(("float", "int"))
        if t == "plane":
            P, exc = call(build, o, pose, num)
            if not expect(P, exc, "C17.point_normal_ctor", pose):
                continue
            p0 = mk_point(o["p"], pose, num)
            v, w = mk_vector(case["v"], pose, num), mk_vector(case["w"], pose, num)
            P3, exc = call(Plane, p0, Point(p0.pv() + v), Point(p0.pv() + w))
            if expect(P3, exc, "C17.three_points_ctor", pose):
                for q in (p0, Point(p0.pv() + v), Point(p0.pv() + w)):
                    val, exc = call(lambda: q in P3)
                    if exc is not None or val is not True:
                        bad("C17.three_points_contains", "Plane(p1,p2,p3) does not contain one of its defining points", pose)
            P2, exc = call(Plane, p0, v, w)
            expect(P2, exc, "C17.point_vectors_ctor", pose)
            roundtrips(P, o, pose, expect, bad, out, case)
            N, exc = call(lambda: -P)
            if expect(N, exc, "C17.neg", pose):
                if not parallel_dir([-x for x in fl3(N.n)], fl3(P.n), oriented=True):
                    bad("C17.neg_normal", "-P does not have the opposite normal", pose)
        else:
            p0 = mk_point(o["p"], pose, num)
            u = mk_vector(o["u"], pose, num)
            forms = (("PP", lambda: Line(p0, Point(p0.pv() + u))), ("PV", lambda: Line(p0, u)), ("VV", lambda: Line(p0.pv(), u)))
            built = []
            for nm, f in forms:
                L, exc = call(f)
                if expect(L, exc, "C17.line_ctor_" + nm, pose):
                    built.append(L)
            for L in built:
                pr, exc = call(L.parametric)
                out["calls"] += 1
                if exc is not None:
                    bad("C17.line_parametric", "parametric() raised %s" % exc["cls"], pose, exc)
                    continue
                L2, exc = call(Line, pr[0], pr[1])
                expect(L2, exc, "C17.line_parametric", pose)
                val, exc = call(lambda: L2 == L)
                if exc is not None or val is not True:
                    bad("C17.line_parametric_eq", "Line(*L.parametric()) != L", pose)
    return finish_case(out, case)


def roundtrips(P, o, pose, expect, bad, out, case):
    gf, exc = call(P.general_form)
    out["calls"] += 1
    if exc is not None:
        bad("C17.general_form", "general_form() raised %s at %s" % (exc["cls"], exc["site"]), pose, exc)
    else:
        Q, exc = call(Plane, *gf)
        if expect(Q, exc, "C17.general_form_roundtrip", pose):
            for nm, f in (("Q == P", lambda: Q == P), ("P == Q", lambda: P == Q)):
                val, exc = call(f)
                if exc is not None or val is not True:
                    bad("C17.general_form_roundtrip_eq", "Plane(*P.general_form()) != P (%s)" % nm, pose)
                    break
    pn, exc = call(P.point_normal)
    if exc is not None:
        bad("C17.point_normal", "point_normal() raised %s" % exc["cls"], pose, exc)
    else:
        Q, exc = call(Plane, Point(pn[0]), pn[1])
        if expect(Q, exc, "C17.point_normal_roundtrip", pose):
            val, exc = call(lambda: Q == P)
            if exc is not None or val is not True:
                bad("C17.point_normal_roundtrip_eq", "Plane(Point(p), n) != P", pose)
    pr, exc = call(P.parametric)
    out["calls"] += 1
    if exc is not None:
        bad("C17.parametric", "parametric() raised %s at %s: %s" % (exc["cls"], exc["site"], exc["msg"]), pose, exc)
        return
    u, v, w = pr
    N = fl3(pose.vec(o["n"]))
    fv, fw = fl3(v), fl3(w)
    if norm(cross(fv, fw)) <= 1e-9 * max(norm(fv) * norm(fw), 1e-300):
        bad("C17.parametric_independent", "parametric() vectors are not linearly independent: %r %r" % (fv, fw), pose)
        return
    if abs(dot(fv, N)) > 1e-9 * norm(fv) * norm(N) or abs(dot(fw, N)) > 1e-9 * norm(fw) * norm(N):
        bad("C17.parametric_parallel", "parametric() vectors are not parallel to the plane", pose)
        return
    Q, exc = call(Plane, Point(u), v, w)
    if expect(Q, exc, "C17.parametric_roundtrip", pose):
        val, exc = call(lambda: Q == P)
        if exc is not None or val is not True:
            bad("C17.parametric_roundtrip_eq", "Plane(Point(u), v, w) != P", pose)


def finish_case(out, case):
    if not out["mism"]:
        out["sample"] = {"type": case["t"], "object": case["o"], "general_form": case["q"]}
    return out


def finish(res):
    return engine.report(
        res, rule="Plane(a,b,c,d) for every (a,b,c,d) in {-2..2}^4 with (a,b,c) != 0 (int and float), membership of spec-chosen points on / off "
                  "the plane; every lattice plane and line with directions up to (2,2,2) in 2 poses: all constructor forms, general_form / "
                  "point_normal / parametric round trips, negation; non-trivial = a zero or a negative leading component in the normal/direction",
        assumptions=["TLC/SANY", "relation R; independence / parallelism of parametric() vectors checked against the specification's normal"],
        invariants_note="GeneralFormOK (denotes exactly the solutions of the equation) ThreePointsOK LineFormsOK on every state")
