"""C11 - angle, parallel and orthogonal agree with exact direction geometry."""
import math
from decimal import Decimal
from fractions import Fraction as Fr

import engine
from geom import G, observe, call, build
from props import common

KINDS = ["Line", "Plane", "Vector"]
INVS = ["Coherent", "Symmetric", "Emit"]


def run(res, pool, tier, seed):
    if tier == "quick":
        jobs = [dict(module="MC_Rel.tla", tag="dirs1", invariants=INVS,
                     constants=dict(B=1, KA=set(KINDS), KB=set(KINDS), SEED=seed % 1000, NSHARD=2)),
                dict(module="MC_Rel.tla", tag="dirs2", invariants=INVS, timeout=1500,
                     constants=dict(B=2, KA=set(KINDS), KB=set(KINDS), SEED=seed % 1000, NSHARD=40))]
    else:
        jobs = [dict(module="MC_Rel.tla", tag="dirs1", invariants=INVS,
                     constants=dict(B=1, KA=set(KINDS), KB=set(KINDS), SEED=seed % 1000, NSHARD=1)),
                dict(module="MC_Rel.tla", tag="dirs2", invariants=INVS, timeout=3600,
                     constants=dict(B=2, KA=set(KINDS), KB=set(KINDS), SEED=seed % 1000, NSHARD=12))]
    engine.run_jobs(res, jobs, pool)
    import traces
    traces.run_for(res, ["unit_tests", "driver"], {"C11"}, seed=seed + 11, nsessions=250 if tier == "quick" else 2500)


def expected_angle(ang):
    q = Fr(ang["q"][0], ang["q"][1])
    r = float((Decimal(q.numerator) / Decimal(q.denominator)).sqrt())
    r = min(1.0, max(0.0, r))
    return math.acos(r) if ang["fn"] == "acos_sqrt" else math.asin(r)


def replay_case(case, tag, rng, tier):
    a, b = case["a"], case["b"]
    out = {"mism": [], "skipped": {}, "calls": 0, "nontrivial": case["cls"] != "Oblique",
           "cls": "%s|%s|%s" % (a["k"], b["k"], case["cls"])}
    want_angle = expected_angle(case["ang"])
    for pose in common.poses_for((a, b), rng, 1):
        num = common.num_for(rng, pose, (a, b))
        la, lb = build(a, pose, num), build(b, pose, num)
        checks = []
        for name, fn, want in (("angle", G.angle, want_angle), ("parallel", G.parallel, case["par"]),
                               ("orthogonal", G.orthogonal, case["orth"])):
            checks.append((name, "func", (lambda fn=fn: fn(la, lb)), want))
            checks.append((name, "swapped", (lambda fn=fn: fn(lb, la)), want))
            if a["k"] in ("Line", "Plane"):
                checks.append((name, "method", (lambda name=name: getattr(la, name)(lb)), want))
        for name, form, f, want in checks:
            val, exc = call(f)
            out["calls"] += 1
            obs = exc or observe(val)
            why = None
            if obs["k"] == "Exception":
                why = "raised %s at %s" % (obs["cls"], obs["site"])
            elif name == "angle":
                if obs["k"] != "Num":
                    why = "returned %s" % obs["k"]
                elif not (abs(obs["x"] - want) <= 1e-7) or not (-1e-12 <= obs["x"] <= math.pi / 2 + 1e-12):
                    why = "angle %r != %r" % (obs["x"], want)
            else:
                if obs["k"] != "Bool" or obs["b"] != want:
                    why = "%s returned %r, exact answer %r" % (name, val, want)
            if why:
                sig = {"op": name, "form": form, "kinds": [a["k"], b["k"]], "cls": case["cls"], "obs": common.obs_kind(obs)}
                m, skip = common.mismatch("C11.%s.%s" % (name, form), sig, why, {"angle": want_angle, "par": case["par"], "orth": case["orth"]},
                                          obs, pose, (a, b))
                if m:
                    out["mism"].append(m)
                else:
                    out["skipped"][skip] = out["skipped"].get(skip, 0) + 1
    if not out["mism"]:
        out["sample"] = {"a": a, "b": b, "expected": {"angle_spec": case["ang"], "parallel": case["par"], "orthogonal": case["orth"]}}
    return out


def finish(res):
    return engine.report(
        res, rule="all direction pairs of the lattice with every length ratio (1,2,3,5, both signs) for Line/Line, Line/Plane, "
                  "Plane/Plane, Vector/Vector in both orders, functions and methods, 2 poses; non-trivial = exactly parallel or "
                  "perpendicular pair",
        assumptions=["TLC/SANY", "acos/asin of the exact rational cos^2 evaluated in the harness (tolerance 1e-7 rad)"],
        invariants_note="Coherent (parallel <=> angle 0, orthogonal <=> angle pi/2) and Symmetric on every state")
