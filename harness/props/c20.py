"""C20 - queries are pure and composite objects own their data."""
import copy

import engine
from geom import (G, R, observe, call, build, mk_point, mk_vector, convs, sqrt_rat, fl3, Point, Vector, Line, HalfLine, Segment,
                  Plane, ConvexPolygon, ConvexPolyhedron)
from props import common
from props.c11 import expected_angle
from props.c07 import vec

FIVE = ("Point", "Line", "Plane", "Polygon", "Polyhedron")


def consts(seed, depth, nshard):
    return {"S": 2, "SEED": seed % 1000, "NSHARD": nshard, "ObjChoices": "<- MCObjChoices", "ArgPts": "<- MCArgPts",
            "MoveVecs": "<- MCMoveVecs", "Alphabet": {"Move", "Copy", "Query", "Mutate", "Neg", "MoveKeep"}, "QueryOps": "<- AllOps",
            "MaxDepth": depth, "Probes": "<- MCProbes"}


def run(res, pool, tier, seed):
    if tier == "quick":
        jobs = [dict(module="MC_Pure.tla", tag="bfs2", invariants=["DispInv", "ValidInv", "Emit"], properties=["QueryPure", "OwnInv"],
                     constants=consts(seed, 2, 8), timeout=1500, batch=50, cfg_extra=["CONSTRAINT FirstNotQuery"]),
                dict(module="MC_Pure.tla", tag="sim5", invariants=["Emit"], constants=consts(seed, 5, 1), timeout=600, batch=50,
                     simulate="num=600", depth=6, tlc_seed=seed + 5, workers=8, spec="SpecSim")]
    else:
        jobs = [dict(module="MC_Pure.tla", tag="bfs2", invariants=["DispInv", "ValidInv", "Emit"], properties=["QueryPure", "OwnInv"],
                     constants=consts(seed, 2, 12), timeout=7200, batch=50),
                dict(module="MC_Pure.tla", tag="sim6", invariants=["Emit"], constants=consts(seed, 6, 1), timeout=3600, batch=50,
                     simulate="num=4000", depth=7, tlc_seed=seed + 5, workers=8, spec="SpecSim")]
    # every relative position of two operands (the universes of C01 / C02): the whole query battery on one pair, snapshots in between
    flat = ["Point", "Line", "HalfLine", "Segment", "Plane"]
    jobs.append(dict(module="MC_Flat.tla", tag="pairpure-flat", invariants=["Emit"], timeout=1800,
                     constants=dict(B=1, KA=set(flat), KB=set(flat), SEED=seed % 1000, NSHARD=4 if tier == "quick" else 1, NBORING=12 if tier == "quick" else 2)))
    from props.c02 import POLYH, POLYG
    jobs.append(dict(module="MC_FlatBody.tla", tag="pairpure-body", invariants=["Emit"], timeout=3600,
                     constants=dict(GENK=set(), NGEN=1, S=2, BODIES=set(POLYH + POLYG), KF=set(flat), SEED=(seed + 3) % 1000,
                                    NSHARD=600 if tier == "quick" else 30, NXCHECK=1000)))
    allb = set(POLYH + POLYG)
    jobs.append(dict(module="MC_BodyBody.tla", tag="pairpure-bodybody", invariants=["Emit"], timeout=3600, batch=40,
                     constants=dict(NL2=1000, SA=2, OFF=0, GENK=set(), NGEN=1, S=2, BODIES1=allb, BODIES2=allb, T=2, SEED=(seed + 4) % 1000,
                                    NSHARD=150 if tier == "quick" else 12)))
    engine.run_jobs(res, jobs, pool)
    import traces
    traces.run_for(res, ["sessions"], {"C20"}, seed=seed + 12, nsessions=400 if tier == "quick" else 4000)


def snap(x):
    """complete observable state of a library object as plain comparable data (cached attributes included)"""
    o = observe(x)
    extra = {}
    if isinstance(x, (Segment, HalfLine)) and hasattr(x, "line"):
        extra["line"] = observe(x.line)
    if isinstance(x, ConvexPolygon):
        if hasattr(x, "plane"):
            extra["plane"] = observe(x.plane)
        if hasattr(x, "center_point"):
            extra["center"] = fl3(x.center_point)
    if isinstance(x, ConvexPolyhedron):
        o["vs"] = sorted(o["vs"])
        extra["faces"] = [snap(f) for f in x.convex_polygons]
        if hasattr(x, "center_point"):
            extra["center"] = fl3(x.center_point)
        if hasattr(x, "segment_set"):
            extra["edges"] = sorted(tuple(sorted((fl3(s.start_point), fl3(s.end_point)))) for s in x.segment_set)
        if hasattr(x, "pyramid_set"):
            extra["pyramids"] = sorted((fl3(p.point), tuple(fl3(q) for q in p.convex_polygon.points)) for p in x.pyramid_set)
    return (repr(sorted(o.items(), key=lambda kv: kv[0])), repr(sorted(extra.items())))


def construct(case, pose, num):
    kinds = case.get("argk") or ["P"] * len(case["args0"])
    args = [mk_point([p[0], p[1], p[2], 1], pose, num) if kd == "P" else vec(p, pose, num) for p, kd in zip(case["args0"], kinds)]
    objs = []
    for d, h in zip(case["build"], case["heap0"]):
        k, a = d["k"], [i - 1 for i in d["args"]]
        if k == "Segment":
            objs.append(Segment(args[a[0]], args[a[1]]))
        elif k == "HalfLine":
            objs.append(HalfLine(args[a[0]], args[a[1]]))
        elif k == "Line":
            objs.append(Line(args[a[0]], args[a[1]]))
        elif k == "SegmentPV":
            objs.append(Segment(args[a[0]], args[a[1]]))
        elif k == "HalfLinePV":
            objs.append(HalfLine(args[a[0]], args[a[1]]))
        elif k == "Polygon":
            objs.append(ConvexPolygon(tuple(args[i] for i in a)))
        elif k == "Polyhedron":
            objs.append(ConvexPolyhedron(tuple(objs[i] for i in a)))
        elif k == "Neg":
            objs.append(-objs[a[0]])
        else:
            objs.append(build(h, pose, num))
    return args, objs


def run_query(op, a, b, la, lb, exp, pose):
    """returns (why or None, raised?)"""
    if op == "intersection":
        val, exc = call(G.intersection, la, lb)
        return R(exc or observe(val), exp["o"], pose)
    if op == "in":
        val, exc = call(lambda: la in lb)
        return None if (exc is None and val is exp["b"]) else "`in` gave %r, exact %r" % (exc or val, exp["b"])
    if op == "distance":
        val, exc = call(G.distance, la, lb)
        want = sqrt_rat(exp["q"], pose.lam)
        return None if (exc is None and abs(float(val) - want) <= 1e-9 * max(1.0, want)) else "distance %r, exact %r" % (exc or val, want)
    if op == "angle":
        val, exc = call(G.angle, la, lb)
        want = expected_angle(exp["a"])
        return None if (exc is None and abs(float(val) - want) <= 1e-7) else "angle %r, exact %r" % (exc or val, want)
    if op in ("parallel", "orthogonal"):
        val, exc = call(getattr(G, op), la, lb)
        return None if (exc is None and val is exp["b"]) else "%s gave %r, exact %r" % (op, exc or val, exp["b"])
    if op == "eq":
        val, exc = call(lambda: la == lb)
        if exc is not None and not (a["k"] in FIVE):
            return None                     # Segment/HalfLine == foreign type: not claimed by any property
        return None if (exc is None and bool(val) is exp["b"]) else "== gave %r, exact %r" % (exc or val, exp["b"])
    if op == "measure":
        bads, _ = common.check_measures(la, exp["m"], pose)
        return bads[0][1] if bads else None
    if op == "hash":
        call(hash, la)
        return None
    if op == "repr":
        call(repr, la)
        return None
    return "unknown op"


PAIR_QUERIES = ("intersection", "intersection_swapped", "intersection_method", "in", "in_swapped", "distance", "angle", "parallel",
                "orthogonal", "eq", "hash", "repr", "measure")


def pair_purity(case, rng):
    """one operand pair of the C01 / C02 universes: every query on it in a random order; the complete snapshot of both operands is
    compared before and after every call, and the intersection is asked again at the end (the answer must not depend on what ran before)"""
    a, b, s = case["a"], case["b"], case.get("s", 1)
    out = {"mism": [], "skipped": {}, "calls": 0, "nontrivial": True, "cls": "pair|%s|%s" % (a["k"], b["k"])}
    pose = common.poses_for((a, b), rng, 1, s)[rng.randint(0, 1)]
    num = common.num_for(rng, pose, (a, b))
    built, exc = call(lambda: (build(a, pose, num), build(b, pose, num)))
    if exc is not None:
        return out                      # constructions are judged by C09 / C17
    la, lb = built
    cfg0 = (G.get_eps(), G.get_sig_figures())

    def bad(clause, why, q):
        m, skip = common.mismatch(clause, {"op": q, "kinds": [a["k"], b["k"]], "what": clause.split(".", 1)[1]}, why,
                                  {"query": q}, {"k": "-"}, pose, [a, b])
        if m:
            out["mism"].append(m)
        else:
            out["skipped"][skip] = out["skipped"].get(skip, 0) + 1

    before = (snap(la), snap(lb))
    first, _ = call(G.intersection, la, lb)
    first = observe(first)
    if (snap(la), snap(lb)) != before:
        bad("C20.pure", "the first intersection changed an observable attribute of an operand", "intersection")
    qs = list(PAIR_QUERIES)
    rng.shuffle(qs)
    for q in qs:
        before = (snap(la), snap(lb))
        f = {"intersection": lambda: G.intersection(la, lb), "intersection_swapped": lambda: G.intersection(lb, la),
             "intersection_method": lambda: la.intersection(lb), "in": lambda: la in lb, "in_swapped": lambda: lb in la,
             "distance": lambda: G.distance(la, lb), "angle": lambda: G.angle(la, lb), "parallel": lambda: G.parallel(la, lb),
             "orthogonal": lambda: G.orthogonal(la, lb), "eq": lambda: la == lb, "hash": lambda: (hash(la), hash(lb)),
             "repr": lambda: (repr(la), repr(lb)), "measure": lambda: [call(getattr(x, m)) for x in (la, lb) for m in ("length", "area", "volume") if hasattr(x, m)]}[q]
        call(f)                         # unsupported pairs raise: that is fine here, the operands must still be untouched
        out["calls"] += 1
        after = (snap(la), snap(lb))
        if after != before:
            which = [k for k, (x, y) in zip((a["k"], b["k"]), zip(before, after)) if x != y]
            bad("C20.pure", "%s changed an observable attribute of its operand(s) %s" % (q, which), q)
            break
        if (G.get_eps(), G.get_sig_figures()) != cfg0:
            bad("C20.pure_config", "%s changed the global tolerance" % q, q)
            G.set_eps()
            break
    last, _ = call(G.intersection, la, lb)
    if R(observe(last), case["exp"], pose) is None and R(first, case["exp"], pose) is not None or R(observe(last), case["exp"], pose) is not None and R(first, case["exp"], pose) is None:
        bad("C20.order_independent", "intersection answers differently before and after the other queries", "intersection")
    if not out["mism"]:
        out["sample"] = {"a": a, "b": b}
    return out


def replay_case(case, tag, rng, tier):
    if tag.startswith("pairpure"):
        return pair_purity(case, rng)
    hist, s = case["hist"], case["s"]
    acts = [e["act"] for e in hist]
    out = {"mism": [], "skipped": {}, "calls": 0, "nontrivial": True, "cls": "-".join(a[:2] for a in acts)}
    pose = common.poses_for([], rng, 1, s)[rng.randint(0, 1)]
    if pose.maxabs([[3 * s, 3 * s, 3 * s, 1]]) > 16:
        pose = common.geom.Pose(s=s)
    num = "float" if rng.random() < 0.7 else "int"

    def bad(clause, why, step, extra=None):
        e = hist[step] if step is not None else {}
        sig = {"op": e.get("op", e.get("act", "end")), "act": e.get("act", "end"), "what": clause.split(".", 1)[1]}
        if extra:
            sig.update(extra)
        objs_spec = [h for h in case["heap0"]]
        m, skip = common.mismatch(clause, sig, why, {"step": step, "event": e}, {"k": "-"}, pose, objs_spec)
        if m:
            out["mism"].append(m)
        else:
            out["skipped"][skip] = out["skipped"].get(skip, 0) + 1

    built, exc = call(construct, case, pose, num)
    if exc is not None:
        bad("C20.construct", "the session objects could not be constructed: %s at %s" % (exc["cls"], exc["site"]), None)
        return out
    args, objs = built
    cfg0 = (G.get_eps(), G.get_sig_figures())
    cur = [h for h in case["heap0"]]
    copies = []
    for n, e in enumerate(hist):
        before_o = [snap(o) for o in objs]
        before_a = [snap(a) for a in args]
        out["calls"] += 1
        if e["act"] == "Query":
            i, j = e["i"] - 1, e["j"] - 1
            why = run_query(e["op"], cur[i], cur[j], objs[i], objs[j], e["exp"], pose)
            if why:
                bad("C20.answer", "query answer differs from the exact one: " + why, n, {"kinds": [cur[i]["k"], cur[j]["k"]]})
            changed = [k for k in range(len(before_o)) if snap(objs[k]) != before_o[k]] + [100 + k for k in range(len(args)) if snap(args[k]) != before_a[k]]
            if changed:
                bad("C20.pure", "query changed observable state of objects %r" % changed, n, {"kinds": [cur[i]["k"], cur[j]["k"]]})
        if (G.get_eps(), G.get_sig_figures()) != cfg0:
            bad("C20.pure_config", "the step changed the global tolerance to eps=%r sig=%r" % (G.get_eps(), G.get_sig_figures()), n,
                {"kinds": [cur[e["i"] - 1]["k"], cur[e["j"] - 1]["k"]] if e["act"] == "Query" else []})
            G.set_eps()
        if e["act"] == "Query":
            pass
        elif e["act"] == "Move":
            i = e["id"] - 1
            ret, exc = call(objs[i].move, vec(e["v"], pose, num))
            cur[i] = e["post"]
            if exc is not None:
                bad("C20.move_raises", "move raised %s" % exc["cls"], n)
                return out
            changed = [k for k in range(len(objs)) if k != i and snap(objs[k]) != before_o[k]]
            if changed:
                bad("C20.own_move", "moving object %d changed objects %r that were built from it" % (i, changed), n, {"kind": cur[i]["k"]})
        elif e["act"] in ("Neg", "MoveKeep"):
            # a new live object derived from a live one: it must be independent of its source from now on
            i = e["id"] - 1
            if e["act"] == "Neg":
                new, exc = call(lambda: -objs[i])
                val = e["val"]
            else:
                new, exc = call(objs[i].move, vec(e["v"], pose, num))
                cur[i] = e["post"]
                val = e["post"]
            if exc is not None:
                bad("C20.derive_raises", "%s raised %s" % (e["act"], exc["cls"]), n)
                return out
            changed = [k for k in range(len(before_o)) if (k != i or e["act"] == "Neg") and snap(objs[k]) != before_o[k]]
            if changed:
                bad("C20.own_move", "%s of object %d changed objects %r" % (e["act"], i, changed), n, {"kind": cur[i]["k"]})
            objs.append(new)
            cur.append(val)
        elif e["act"] == "Mutate":
            k = e["k"] - 1
            d = vec(e["v"], pose, num)
            if isinstance(args[k], Vector):
                for ax in range(3):                      # in-place coordinate assignment on a shared Vector
                    args[k][ax] = args[k][ax] + d[ax]
            elif rng.random() < 0.5:
                call(args[k].move, d)
            else:
                args[k].x = args[k].x + d[0]
                args[k].y = args[k].y + d[1]
                args[k][2] = args[k].z + d[2]
            changed = [q for q in range(len(objs)) if snap(objs[q]) != before_o[q]]
            if changed:
                bad("C20.own_args", "mutating a constructor argument changed objects %r" % changed, n,
                    {"kinds": sorted({cur[q]["k"] for q in changed})})
        elif e["act"] == "Copy":
            i = e["id"] - 1
            c = copy.deepcopy(objs[i])
            copies.append((c, e["val"], n))
            val, exc = call(lambda: c == objs[i])
            if exc is not None or not val:
                bad("C20.copy_equal", "a deep copy is not equal to the original (%r)" % (exc or val), n, {"kind": cur[i]["k"]})
            if snap(c) != snap(objs[i]):
                bad("C20.copy_equal", "a deep copy differs from the original in an observable attribute", n, {"kind": cur[i]["k"]})
    # final state: every object denotes what the specification says; copies are independent
    for k, o in enumerate(objs):
        why = R(observe(o), case["heap"][k], pose)
        if why:
            bad("C20.final_state", "object %d (%s): %s" % (k, case["heap"][k]["k"], why), None, {"kind": case["heap"][k]["k"]})
    for c, val, n in copies:
        why = R(observe(c), val, pose)
        if why:
            bad("C20.copy_independent", "a deep copy changed after later operations on the original: " + why, n, {"kind": val["k"]})
    if not out["mism"]:
        out["sample"] = {"history": [{k: v for k, v in e.items() if k not in ("exp", "post", "val")} for e in hist]}
    return out


def finish(res):
    return engine.report(
        res, rule="one session heap (segment, half-line, line, four triangles, a tetrahedron built from those triangles, plane, point) built "
                  "from four shared Points; TLC enumerates every history of length 2 over Query (10 query kinds x all operand pairs) / "
                  "Move / Mutate / Copy (sharded) and simulates longer ones; after every step the complete attribute snapshot of every "
                  "object and argument is compared with the snapshot before (exactly) and with the specification's heap",
        assumptions=["TLC/SANY", "relation R", "snapshots cover the attributes named in the property's observe_at list"],
        invariants_note="QueryPure OwnInv DispInv ValidInv on the Session machine")
