"""C10 - distance is the exact Euclidean distance, symmetric and total."""
import engine
import geom
from geom import G, observe, call, build, sqrt_rat
from props import common

KINDS = ["Point", "Line", "Plane"]
INVS = ["DistSymmetric", "DistNonNeg", "DistZeroIffMeet", "DistLowerBound", "Emit"]


def run(res, pool, tier, seed):
    if tier == "quick":
        jobs = [dict(module="MC_Dist.tla", tag="lat1", invariants=INVS,
                     constants=dict(B=1, KA=set(KINDS), KB=set(KINDS), SEED=seed % 1000, NSHARD=1))]
    else:
        jobs = [dict(module="MC_Dist.tla", tag="lat1", invariants=INVS,
                     constants=dict(B=1, KA=set(KINDS), KB=set(KINDS), SEED=seed % 1000, NSHARD=1)),
                dict(module="MC_Dist.tla", tag="lat2", invariants=INVS, timeout=3600,
                     constants=dict(B=2, KA=set(KINDS), KB=set(KINDS), SEED=seed % 1000, NSHARD=4))]
    engine.run_jobs(res, jobs, pool)
    import traces
    traces.run_for(res, ["driver"], {"C10"}, seed=seed + 5, nsessions=150 if tier == "quick" else 2500)


def replay_case(case, tag, rng, tier):
    a, b, d2, meet = case["a"], case["b"], case["d2"], case["meet"]
    out = {"mism": [], "skipped": {}, "calls": 0, "nontrivial": d2[0] != 0,
           "cls": "%s|%s|%s" % (a["k"], b["k"], "zero" if d2[0] == 0 else "pos")}
    for pose in common.poses_for((a, b), rng, 2):
        num = common.num_for(rng, pose, (a, b))
        la, lb = common.build_variant(a, pose, num, rng), common.build_variant(b, pose, num, rng)
        want = sqrt_rat(d2, pose.lam)
        forms = [("func", lambda: G.distance(la, lb)), ("swapped", lambda: G.distance(lb, la))]
        if a["k"] in ("Line", "Plane"):
            forms.append(("method", lambda: la.distance(lb)))
        if a["k"] == "Point" and b["k"] == "Point":
            forms.append(("method", lambda: la.distance(lb)))
        for form, f in forms:
            val, exc = call(f)
            out["calls"] += 1
            obs = exc or observe(val)
            why = None
            if obs["k"] == "Exception":
                why = "raised %s at %s" % (obs["cls"], obs["site"])
            elif obs["k"] != "Num":
                why = "returned %s" % obs["k"]
            elif not (abs(obs["x"] - want) <= 1e-9 * max(1.0, want)):
                why = "distance %r != %r" % (obs["x"], want)
            elif obs["x"] < 0:
                why = "negative distance"
            if why:
                sig = {"op": "distance", "form": form, "kinds": [a["k"], b["k"]], "obs": common.obs_kind(obs),
                       "zero": d2[0] == 0}
                m, skip = common.mismatch("C10.distance." + form, sig, why, {"k": "Dist2", "q": d2, "value": want}, obs, pose, (a, b))
                if m:
                    out["mism"].append(m)
                else:
                    out["skipped"][skip] = out["skipped"].get(skip, 0) + 1
        # zero exactly when intersection is not None (on the library itself)
        val, exc = call(G.intersection, la, lb)
        out["calls"] += 1
        if exc is None:
            lib_meet = val is not None
            if lib_meet != meet:
                sig = {"op": "distance-vs-intersection", "kinds": [a["k"], b["k"]], "obs": str(lib_meet)}
                m, skip = common.mismatch("C10.zero_iff_meet", sig, "intersection is %s but exact distance^2 is %s" % (
                    "not None" if lib_meet else "None", d2), {"meet": meet}, observe(val), pose, (a, b))
                if m:
                    out["mism"].append(m)
    if not out["mism"]:
        out["sample"] = {"a": a, "b": b, "expected_dist2": d2, "calls": "distance(a,b), distance(b,a), a.distance(b), intersection(a,b)"}
    return out


def finish(res):
    return engine.report(
        res, rule="all documented operand pairs among Point/Line/Plane over the lattice (first operand modulo translation), both "
                  "orders and method forms, 3 poses each; non-trivial = exact distance > 0",
        assumptions=["TLC/SANY", "relation R", "sqrt of the exact rational evaluated with 50-digit decimals"],
        invariants_note="DistSymmetric DistNonNeg DistZeroIffMeet DistLowerBound on every state")
