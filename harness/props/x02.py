"""X02 - the visualizer's scene (spec/G3DVis.tla; not in MANIFEST: the specification keeps growing beyond the listed properties).
TLC enumerates the histories of add() calls and the exact scene after every call; each history is replayed into a real
BaseVisualizer (no plotting backend is needed for the scene itself) under a lattice pose."""
import math

import engine
import geom
from geom import G, call, build, mk_point, fl3, IDENT, Point, Segment
from props import common

STYLE = {1: ("r", 2), 2: ("b", 5)}


def run(res, pool, tier, seed):
    consts = dict(Items="<- Catalogue", Styles={1, 2}, NLens={0, 2}, SEED=seed % 1000)
    jobs = [dict(module="MC_Vis.tla", tag="adds2", invariants=["Denotes", "EulerScene", "EdgeClosed", "ArrowsSane", "Emit"], properties=["Monotone"],
                 batch=50, timeout=1500, constants=dict(consts, MaxAdds=2, NSHARD=1))]
    if tier != "quick":
        jobs.append(dict(module="MC_Vis.tla", tag="adds3", invariants=["Denotes", "EulerScene", "EdgeClosed", "Emit"], properties=["Monotone"],
                         batch=50, timeout=7200, constants=dict(consts, MaxAdds=3, NSHARD=16)))
    engine.run_jobs(res, jobs, pool)


def unit(v):
    n = math.sqrt(sum(float(x) ** 2 for x in v))
    return [float(x) / n for x in v]


def build_item(o, pose):
    """library value for a catalogue item; polygons keep their orientation under reflections (vertex order reversed)"""
    from Geometry3D.visualization.arrow import Arrow
    if o["k"] == "Polygon":
        n = len(o["cyc"])
        return build(o, pose, "float", rep={"perm": list(range(n))[::-1]} if pose.det < 0 else None)
    if o["k"] == "Arrow":
        # the arrow of a face, exactly as a user would obtain it from the library's own values of that face
        face = build({"k": "Polygon", "cyc": o["of"]}, pose, "float", rep={"perm": list(range(len(o["of"])))[::-1]} if pose.det < 0 else None)
        nrm = face.plane.n.normalized()
        if sum(a * float(b) for a, b in zip(nrm, pose.vec(o["n"]))) < 0:
            nrm = -nrm
        c = face.center_point
        return Arrow(c.x, c.y, c.z, nrm[0], nrm[1], nrm[2], o["len"])
    return build(o, pose, "float")


def replay_case(case, tag, rng, tier):
    from Geometry3D.visualization.base_visualizer import BaseVisualizer
    out = {"mism": [], "skipped": {}, "calls": 0, "nontrivial": True, "cls": "-".join(o["k"][:4] for o in case["items"])}
    pts = [P for o in case["items"] for P in common.all_points(o)]
    pose = common.poses_for([], rng, 1, 1)[0] if rng.random() < 0.3 else geom.random_pose(rng, s=1, pts=pts)

    def bad(clause, why, step=None):
        m, _ = common.mismatch(clause, {"op": "add", "what": clause.split(".", 1)[1], "kinds": [o["k"] for o in case["items"]]}, why,
                               {"step": step, "hist": case["hist"]}, {"k": "-"}, pose, [])
        out["mism"].append(m)

    viz = BaseVisualizer()
    for n, (e, o, st) in enumerate(zip(case["hist"], case["items"], case["steps"])):
        item, exc = call(build_item, o, pose)
        if exc is not None:
            bad("X02.build", "catalogue item could not be built: %s" % exc["cls"], n)
            return out
        col, size = STYLE[e["st"]]
        _, exc = call(viz.add, (item, col, size), e["nl"])
        out["calls"] += 1
        if e["ok"] and exc is not None:
            bad("X02.add_raises", "add(%s) raised %s at %s" % (o["k"], exc["cls"], exc["site"]), n)
            return out
        if not e["ok"] and (exc is None or exc["cls"] != "ValueError"):
            bad("X02.add_accepts", "add(%s) must raise ValueError, got %s" % (o["k"], exc["cls"] if exc else "a return"), n)
        got = (len(viz.point_set), len(viz.segment_set), len(viz.arrow_set))
        want = (st["np"], st["ns"], st["na"])
        if got != want:
            bad("X02.scene_size", "after call %d (%s) the scene has %r points/segments/arrows, exact %r" % (n + 1, o["k"], got, want), n)
            return out
    # membership of every exact primitive (hash-set lookup with a freshly built equal object), then no strays by geometry
    for P, s in case["pts"]:
        if (mk_point(P, pose, "float"),) + STYLE[s] not in viz.point_set:
            bad("X02.point_missing", "a vertex is not in point_set in its style")
            break
    for (A, B), s in case["segs"]:
        a, b = mk_point(A, pose, "float"), mk_point(B, pose, "float")
        if (Segment(a, b),) + STYLE[s] not in viz.segment_set or (Segment(b, a),) + STYLE[s] not in viz.segment_set:
            bad("X02.segment_missing", "an edge is not in segment_set in its style (looked up in both directions)")
            break
    want_arrows = [(tuple(float(x) for x in pose.pt(c)), unit(pose.vec(nv)), float(ln), STYLE[s]) for c, nv, ln, s in case["arrs"]]
    for arrow, col, size in viz.arrow_set:
        t = arrow.get_tuple()
        if not any(all(abs(t[i] - c[i]) < 1e-9 for i in range(3)) and all(abs(t[3 + i] - u[i]) < 1e-9 for i in range(3))
                   and abs(t[6] - ln) < 1e-12 and (col, size) == stl for c, u, ln, stl in want_arrows):
            bad("X02.arrow_wrong", "an arrow of the scene is not the centroid / oriented unit normal / length of any face: %r" % (t,))
            break
    for obj, col, size in viz.point_set:
        if not isinstance(obj, Point):
            bad("X02.kind", "point_set holds a %s" % type(obj).__name__)
    for obj, col, size in viz.segment_set:
        if not isinstance(obj, Segment):
            bad("X02.kind", "segment_set holds a %s" % type(obj).__name__)
    if not out["mism"]:
        out["sample"] = {"hist": case["hist"], "steps": case["steps"]}
    return out


def finish(res):
    res.extra["note"] = "not one of the twenty listed properties; no MANIFEST entry"
    return engine.report(res, rule="every history of two (thorough: a sixteenth of those of three) add() calls over a catalogue of 16 items sharing vertices, "
                                   "edges, a face and an arrow, in two styles, with and without normals; sizes after every call, membership at the end",
                         assumptions=["TLC/SANY", "object builders"], invariants_note="Denotes EulerScene EdgeClosed ArrowsSane Monotone")
