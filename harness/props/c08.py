"""C08 - equality is representation-independent and consistent with hashing."""
from fractions import Fraction as Fr

import engine
from geom import (G, observe, call, build, mk_point, mk_vector, convs, Point, Vector, Line, HalfLine, Segment, Plane,
                  ConvexPolygon, ConvexPolyhedron)
from props import common
from props.c07 import vec

KINDS = ["Point", "Vector", "Line", "HalfLine", "Segment", "Plane", "Polygon", "Polyhedron"]
FIVE = ("Point", "Line", "Plane", "Polygon", "Polyhedron")
INVS = ["RepsSame", "NearDifferent", "SameIffMutual", "Emit"]


def run(res, pool, tier, seed):
    sd = seed % 1000
    if tier == "quick":
        jobs = [dict(module="MC_Eq.tla", tag="s2", invariants=INVS, constants=dict(S=2, KINDS=set(KINDS), SEED=sd, NSHARD=1), batch=100)]
    else:
        jobs = [dict(module="MC_Eq.tla", tag="s2", invariants=INVS, constants=dict(S=2, KINDS=set(KINDS), SEED=sd, NSHARD=1), batch=100),
                dict(module="MC_Eq.tla", tag="s8", invariants=INVS, constants=dict(S=8, KINDS=set(KINDS), SEED=sd, NSHARD=1), batch=100)]
    engine.run_jobs(res, jobs, pool)


def build_rep(rep, pose, rng):
    x = build_rep0(rep, pose, rng)
    # the same set once more through the library's own forms (C17 makes them equal, so they must also hash equal)
    r = rng.random()
    if isinstance(x, Plane) and r < 0.45:
        if r < 0.2:
            u, v, w = x.parametric()
            return Plane(Point(u), v, w)
        if r < 0.3:
            return Plane(*x.general_form())
        if r < 0.4:
            p, n = x.point_normal()
            return Plane(Point(p), n)
        return -x
    if isinstance(x, Line) and r < 0.2:
        return Line(*x.parametric())
    return x


def build_rep0(rep, pose, rng):
    o, form = rep["o"], rep["form"]
    k = o["k"]
    num = form if form in ("int", "float", "frac") else rng.choice(("int", "float"))
    if k == "Plane" and form in ("3P", "PVV", "GF"):
        p = mk_point(o["p"], pose, num)
        v, w = mk_vector(o["v"], pose, num), mk_vector(o["w"], pose, num)
        if form == "3P":
            return Plane(p, Point(p.pv() + v), Point(p.pv() + w))
        if form == "PVV":
            return Plane(p, v, w)
        n = mk_vector(o["n"], pose, num)
        return Plane(n[0], n[1], n[2], n * p.pv())
    if k == "Polyhedron":
        fs = list(range(len(o["fs"])))
        rng.shuffle(fs)
        rev = {i for i in fs if rng.random() < 0.3}
        return build(o, pose, num, {"forder": fs, "rev": rev})
    rep2 = {"form": form}
    if k in ("Line", "HalfLine", "Plane"):
        # one more positive rescaling of the direction / normal vector (the set does not change): quarter multiples whose
        # normalisation is not exact in binary floating point (unit components may differ by an ulp between presentations)
        from fractions import Fraction as Fr
        rep2["scale"] = rng.choice((1, 1, Fr(7, 4), Fr(11, 4), Fr(7, 2), Fr(1, 4), 5))
    return build(o, pose, num, rep2)


def replay_case(case, tag, rng, tier):
    ra, rb, same, s = case["a"], case["b"], case["same"], case["s"]
    k = ra["o"]["k"]
    out = {"mism": [], "skipped": {}, "calls": 0, "nontrivial": True,
           "cls": "%s|%s/%s|%s" % (k, ra["form"], rb["form"], rb["tag"])}
    objs = [x for x in (ra["o"], rb["o"]) if x["k"] != "Vector"]

    def bad(clause, why, pose, obs=None):
        sig = {"op": clause.split(".", 1)[1], "kind": k, "forms": [ra["form"], rb["form"]], "tag": rb["tag"]}
        m, skip = common.mismatch(clause, sig, why, {"same": same, "a": ra, "b": rb}, obs or {"k": "-"}, pose, objs)
        if m:
            out["mism"].append(m)
        else:
            out["skipped"][skip] = out["skipped"].get(skip, 0) + 1

    for pose in common.poses_for(objs, rng, 1, s):
        a, ea = call(build_rep, ra, pose, rng)
        b, eb = call(build_rep, rb, pose, rng)
        if ea is not None or eb is not None:
            out["skipped"]["construction-raised"] = out["skipped"].get("construction-raised", 0) + 1
            continue
        via = "ctor"
        r = rng.random()
        if k != "Vector" and r < 0.2:
            common.warm_up(b)                                 # hashed / compared before it is moved
            v = vec([1, -2, 3], pose, "float")
            _, e1 = call(b.move, v)
            _, e2 = call(b.move, -v)
            if e1 is not None or e2 is not None:
                continue
            via = "there_and_back"
        elif k != "Vector" and r < 0.4:
            # built displaced, hashed, then moved in place to where it belongs
            from geom import Pose, Vector as V_
            d = (rng.randint(-2, 2), rng.randint(-2, 2), rng.choice((-1, 1)))
            shifted = Pose(s=pose.s, k=pose.k, M=pose.M, t=tuple(pose.t[i] - d[i] for i in range(3)), norm=pose.norm)
            b, eb = call(build_rep, rb, shifted, rng)
            if eb is not None:
                continue
            common.warm_up(b)
            _, e1 = call(b.move, V_(*[float(c) for c in d]))
            if e1 is not None:
                continue
            via = "moved_into_place"
        for name, f, want in (("eq", lambda: a == b, same), ("eq_sym", lambda: b == a, same), ("ne", lambda: a != b, not same),
                              ("refl", lambda: a == a, True)):
            val, exc = call(f)
            out["calls"] += 1
            if exc is not None or bool(val) is not want:
                bad("C08." + name, "%s gave %r, denoted sets are %s (%s)" % (name, exc["cls"] if exc else val, "equal" if same else "different", via), pose,
                    exc)
        if same:
            ha, e1 = call(hash, a)
            hb, e2 = call(hash, b)
            out["calls"] += 2
            if e1 is not None or e2 is not None:
                bad("C08.hash_raises", "hash raised %s" % (e1 or e2)["cls"], pose, e1 or e2)
            elif ha != hb:
                eqv, _ = call(lambda: a == b)
                if eqv:
                    bad("C08.hash", "a == b but hash(a) != hash(b) (%s)" % via, pose)
            else:
                n, e3 = call(lambda: len({a, b}))
                if e3 is not None or n != 1:
                    bad("C08.set_dedup", "len({a, b}) = %r for equal objects" % (e3 or n), pose)
        if k in FIVE:
            other = Segment(Point(0, 0, 0), Point(1, 2, 3)) if k != "Segment" else Point(0, 0, 0)
            for foreign in (3, "x", None, other, 2.5):
                val, exc = call(lambda: a == foreign)
                out["calls"] += 1
                if exc is not None or val is not False:
                    bad("C08.foreign", "== %s gave %r instead of False" % (type(foreign).__name__, exc["cls"] if exc else val), pose, exc)
    if not out["mism"]:
        out["sample"] = {"a": ra, "b": rb, "same_set": same}
    return out


def finish(res):
    return engine.report(
        res, rule="all seven kinds + Vector; for each catalogue object every pair (representation, representation or near miss) chosen by the "
                  "specification: other support points, direction scalings by +-k, constructor forms (PV/PP/VV, PN/3P/PVV/general form), swapped "
                  "endpoints, vertex rotations/reflections, face permutations, int/float/Fraction coordinates, move-and-back; 2 poses; "
                  "==, !=, reflexivity, symmetry, hash, set dedup, foreign-type comparisons",
        assumptions=["TLC/SANY", "hash-boundary admission filter on coordinates, unit directions/normals and offsets"],
        invariants_note="RepsSame NearDifferent SameIffMutual (Canon agrees with mutual containment) on every state")
