"""Denotation of specification values, construction of library objects from them, and the
conformance relation R (DESIGN 6.3).

Nothing in this file computes an intersection, a containment, a distance...: the
specification does that.  Here a specification value (integers) is (a) mapped to exact
rationals under a *pose* (a lattice similarity), (b) turned into a library object, and (c)
compared with what the library returned, within the tolerance the properties state.
"""
import math
import os
import sys
import traceback
from fractions import Fraction as Fr
from decimal import Decimal, getcontext

getcontext().prec = 50

REPO = os.environ.get("G3D_REPO", "/repo")
if REPO not in sys.path:
    sys.path.insert(0, REPO)

import logging  # noqa: E402
import Geometry3D as G  # noqa: E402
from Geometry3D import (Point, Vector, Line, HalfLine, Segment, Plane, ConvexPolygon,  # noqa: E402
                        ConvexPolyhedron)

logging.disable(logging.CRITICAL)      # the library logs warnings on perfectly legal calls

TOL = 1e-9
ABS_TOL = 0.0     # raised temporarily by C19 when comparing objects that differ by a symbolic delta

# ------------------------------------------------------------------------------------------
# poses: x  |->  k * M * (x / s) + t         (M integer, M M^T = c I, c a perfect square)
I3 = ((1, 0, 0), (0, 1, 0), (0, 0, 1))
P3 = ((1, 2, 2), (2, 1, -2), (2, -2, 1))          # rows orthogonal, norm 3
P7 = ((2, 3, 6), (3, -6, 2), (6, 2, -3))          # rows orthogonal, norm 7
P5 = ((5, 0, 0), (0, 3, -4), (0, 4, 3))           # a 3-4-5 rotation about one axis: axis-aligned faces get normals with exactly one zero component


def matmul(A, Bm):
    return tuple(tuple(sum(A[i][k] * Bm[k][j] for k in range(3)) for j in range(3)) for i in range(3))


def signed_perms():
    import itertools
    out = []
    for perm in itertools.permutations(range(3)):
        for signs in itertools.product((1, -1), repeat=3):
            out.append(tuple(tuple(signs[i] if j == perm[i] else 0 for j in range(3)) for i in range(3)))
    return out


SIGNED_PERMS = signed_perms()


class Pose:
    def __init__(self, s=1, k=Fr(1), M=I3, t=(0, 0, 0), norm=1):
        self.s, self.k, self.M, self.t, self.norm = s, Fr(k), M, tuple(Fr(x) for x in t), norm
        self.det = (M[0][0] * (M[1][1] * M[2][2] - M[1][2] * M[2][1]) - M[0][1] * (M[1][0] * M[2][2] - M[1][2] * M[2][0])
                    + M[0][2] * (M[1][0] * M[2][1] - M[1][1] * M[2][0]))

    def lin(self, v):
        M = self.M
        return tuple(M[i][0] * v[0] + M[i][1] * v[1] + M[i][2] * v[2] for i in range(3))

    def pt(self, P):
        """homogeneous spec point -> exact real coordinates"""
        w = P[3] * self.s
        x = self.lin((Fr(P[0], w), Fr(P[1], w), Fr(P[2], w)))
        return tuple(self.k * x[i] + self.t[i] for i in range(3))

    def vec(self, u):
        """spec direction / normal -> direction in the posed frame (exact, un-normalised)"""
        return tuple(Fr(x) for x in self.lin(u))

    def disp(self, v):
        """spec displacement vector (lattice units) -> real displacement"""
        x = self.lin((Fr(v[0], self.s), Fr(v[1], self.s), Fr(v[2], self.s)))
        return tuple(self.k * xi for xi in x)

    @property
    def lam(self):
        """factor by which lengths are multiplied (exact)"""
        return self.k * self.norm / self.s

    def describe(self):
        return {"s": self.s, "k": str(self.k), "M": self.M, "t": [str(x) for x in self.t]}

    def maxabs(self, pts):
        return max((abs(c) for P in pts for c in self.pt(P)), default=0)


IDENT = Pose()


def random_pose(rng, s=1, frames=True, limit=8, pts=()):
    """a seeded lattice similarity keeping all given points within |x| <= limit"""
    for _ in range(20):
        M = rng.choice(SIGNED_PERMS)
        norm = 1
        if frames and rng.random() < 0.4:
            F, norm = rng.choice(((P3, 3), (P3, 3), (P7, 7), (P5, 5), (P5, 5)))
            M = matmul(M, F)
        k = rng.choice((Fr(1, 2), Fr(1), Fr(1), Fr(2), Fr(3))) if norm == 1 else rng.choice((Fr(1, 2), Fr(1), Fr(1, 4)))
        den = rng.choice((1, 2, 4))
        t = tuple(Fr(rng.randint(-2 * den, 2 * den), den) for _ in range(3))
        p = Pose(s=s, k=k, M=M, t=t, norm=norm)
        if p.maxabs(pts) <= limit:
            return p
    return Pose(s=s)


# ------------------------------------------------------------------------------------------
# numbers
def conv(x, num):
    if num == "frac":
        return Fr(x)
    if num == "int" and x.denominator == 1:
        return int(x)
    return float(x)          # exact for dyadic rationals


def convs(xs, num):
    if num == "int" and not all(x.denominator == 1 for x in xs):
        num = "float"
    return [conv(x, num) for x in xs]


VARY = None       # a random.Random: when set, build() varies the length / sign of direction and normal vectors
PERTURB = {}      # {homogeneous spec point (tuple): (axis, delta)}: symbolic perturbations of C19 made concrete


def mk_point(P, pose, num="float"):
    c = convs(pose.pt(P), num)
    if PERTURB:
        pd = PERTURB.get(tuple(P))
        if pd is not None:
            c = [float(x) for x in c]
            c[pd[0]] += pd[1]
    return Point(*c)


def mk_vector(u, pose, num="float", scale=1):
    return Vector(*convs([scale * x for x in pose.vec(u)], num))


def build(o, pose=IDENT, num="float", rep=None):
    """library object for the abstract object `o` (a dict as printed by the specification)"""
    k = o["k"]
    rep = rep or {}
    form = rep.get("form")
    sc = rep.get("scale", 1)
    if "scale" not in rep and VARY is not None and k in ("Line", "Plane", "HalfLine"):
        # the same point set with a rescaled (for Line / Plane also negated) direction or normal vector
        sc = VARY.choice((1, 1, 2, 3, -1, -2, Fr(1, 4), Fr(-1, 2)) if k != "HalfLine" else (1, 1, 2, 3, Fr(1, 4), Fr(1, 2), Fr(1, 8)))
    if form is None and VARY is not None:
        # ... and through another constructor form
        if k == "Line":
            form = VARY.choice(("PV", "PV", "PP", "VV"))
        elif k == "HalfLine":
            form = VARY.choice(("PV", "PV", "PP"))
        elif k == "Segment":
            form = VARY.choice(("PP", "PP", "PV"))
            if VARY.random() < 0.3:
                rep = dict(rep, swap=True)
        elif k == "Plane":
            form = VARY.choice((None, None, None, "GF", "3P", "PVV"))
    if k == "None":
        return None
    if k == "Point":
        return mk_point(o["p"], pose, num)
    if k == "Vector":
        return mk_vector(o["v"], pose, num)
    if k == "Line":
        p = mk_point(o["p"], pose, num)
        v = mk_vector(o["u"], pose, num, sc)
        if form == "PP":
            return Line(p, Point(p.pv() + v))
        if form == "VV":
            return Line(p.pv(), v)
        return Line(p, v)
    if k == "HalfLine":
        p = mk_point(o["p"], pose, num)
        v = mk_vector(o["u"], pose, num, sc)
        if form == "PP":
            return HalfLine(p, Point(p.pv() + v))
        return HalfLine(p, v)
    if k == "Segment":
        a, b = mk_point(o["a"], pose, num), mk_point(o["b"], pose, num)
        if rep.get("swap"):
            a, b = b, a
        if form == "PV":
            return Segment(a, Vector(a, b))
        return Segment(a, b)
    if k == "Plane":
        p = mk_point(o["p"], pose, num)
        n = mk_vector(o["n"], pose, num, sc)
        if form == "GF":
            return Plane(n[0], n[1], n[2], n * p.pv())          # the same plane through the general-form constructor
        if form in ("3P", "PVV"):
            # two independent in-plane lattice vectors (cross products of the lattice normal with coordinate axes)
            nn = [int(x) for x in pose.vec(o["n"])] if all(x.denominator == 1 for x in pose.vec(o["n"])) else None
            if nn is not None:
                ax = (1, 0, 0) if (nn[1], nn[2]) != (0, 0) else (0, 1, 0)
                v = cross(nn, ax)
                w = cross(nn, v)
                V1, V2 = Vector(*convs([Fr(c) for c in v], num)), Vector(*convs([Fr(c) for c in w], num))
                if form == "3P":
                    return Plane(p, Point(p.pv() + V1), Point(p.pv() + V2))
                return Plane(p, V1, V2)
        return Plane(p, n)
    if k == "Polygon":
        pts = [mk_point(P, pose, num) for P in o["cyc"]]
        perm = rep.get("perm")
        if perm:
            pts = [pts[i] for i in perm]
        return ConvexPolygon(tuple(pts))
    if k == "Polyhedron":
        faces = []
        fs = o["fs"]
        order = rep.get("forder") or range(len(fs))
        for idx in order:
            f = fs[idx]
            pts = [mk_point(P, pose, num) for P in f["cyc"]]
            if rep.get("rev") and idx in rep["rev"]:
                pts = pts[::-1]
            faces.append(ConvexPolygon(tuple(pts)))
        return ConvexPolyhedron(tuple(faces))
    raise ValueError("cannot build %r" % (k,))


# ------------------------------------------------------------------------------------------
# observation of library values
def fl3(x):
    return (float(x[0]), float(x[1]), float(x[2]))


def observe(x):
    """project a library value to plain data (no library objects inside); a value whose attributes cannot even be read
    (e.g. a Line whose support vector is None) is reported as Malformed: it matches no expected value"""
    try:
        return _observe(x)
    except (TypeError, AttributeError, IndexError, ValueError, KeyError) as e:
        return {"k": "Malformed", "cls": type(x).__name__, "err": "%s: %s" % (type(e).__name__, str(e)[:80])}


def _observe(x):
    if x is None:
        return {"k": "None"}
    if isinstance(x, bool):
        return {"k": "Bool", "b": x}
    if isinstance(x, (int, float, Fr, Decimal)):
        return {"k": "Num", "x": float(x)}
    if isinstance(x, Point):
        return {"k": "Point", "p": fl3(x)}
    if isinstance(x, Vector):
        return {"k": "Vector", "v": fl3(x)}
    if isinstance(x, Segment):
        return {"k": "Segment", "a": fl3(x.start_point), "b": fl3(x.end_point)}
    if isinstance(x, HalfLine):
        return {"k": "HalfLine", "p": fl3(x.point), "u": fl3(x.vector)}
    if isinstance(x, Line):
        return {"k": "Line", "p": fl3(x.sv), "u": fl3(x.dv)}
    if isinstance(x, Plane):
        return {"k": "Plane", "p": fl3(x.p), "n": fl3(x.n)}
    if isinstance(x, ConvexPolygon):
        return {"k": "Polygon", "cyc": [fl3(p) for p in x.points], "n": fl3(x.plane.n)}
    if isinstance(x, ConvexPolyhedron):
        return {"k": "Polyhedron", "vs": [fl3(p) for p in x.point_set],
                "fs": [{"cyc": [fl3(p) for p in f.points], "n": fl3(f.plane.n)} for f in x.convex_polygons],
                "ne": len(x.segment_set)}
    if isinstance(x, BaseException):
        return {"k": "ExceptionValue", "cls": type(x).__name__}
    if isinstance(x, (tuple, list, set, frozenset)):
        return {"k": "Seq", "xs": [observe(y) for y in x]}
    return {"k": "Other", "repr": repr(x)[:80]}


def exc_obs(e):
    tb = traceback.extract_tb(e.__traceback__)
    site = ""
    for fr in reversed(tb):
        if "Geometry3D" in fr.filename:
            site = "%s:%s" % (os.path.basename(fr.filename), fr.name)
            break
    return {"k": "Exception", "cls": type(e).__name__, "site": site, "msg": str(e)[:120]}


def call(f, *args):
    """run a library call; the observation is the value or the exception"""
    try:
        return f(*args), None
    except Exception as e:           # noqa: BLE001 - any exception is an observation
        return None, exc_obs(e)


# ------------------------------------------------------------------------------------------
# the conformance relation R
def close(x, y, scale=1.0):
    return abs(x - y) <= max(TOL, ABS_TOL) * max(1.0, abs(y), scale)


def pclose(p, q):
    return all(close(p[i], float(q[i])) for i in range(3))


def cross(a, b):
    return (a[1] * b[2] - a[2] * b[1], a[2] * b[0] - a[0] * b[2], a[0] * b[1] - a[1] * b[0])


def dot(a, b):
    return a[0] * b[0] + a[1] * b[1] + a[2] * b[2]


def norm(a):
    return math.sqrt(dot(a, a))


def parallel_dir(v, u, oriented=False):
    u = fl3(u)
    nv, nu = norm(v), norm(u)
    if nv == 0 or nu == 0:
        return False
    if norm(cross(v, u)) > 1e-9 * nv * nu:
        return False
    return dot(v, u) > 0 if oriented else True


def match_points(obs_pts, exp_pts):
    """bijection between observed and expected points within tolerance"""
    if len(obs_pts) != len(exp_pts):
        return "count %d != %d" % (len(obs_pts), len(exp_pts))
    left = list(exp_pts)
    for p in obs_pts:
        for i, q in enumerate(left):
            if pclose(p, q):
                del left[i]
                break
        else:
            return "unexpected vertex %r" % (p,)
    return None


def is_rotation(obs_cyc, exp_cyc):
    """obs cycle equals exp cycle up to rotation and reversal"""
    n = len(exp_cyc)
    for seq in (exp_cyc, exp_cyc[::-1]):
        for r in range(n):
            if all(pclose(obs_cyc[i], seq[(i + r) % n]) for i in range(n)):
                return True
    return False


def R(obs, exp, pose):
    """None if the observed library value conforms to the expected specification value, else a
    short reason.  `exp` is a specification object (dict of integers), `obs` an observation."""
    ek, ok = exp["k"], obs["k"]
    if ok == "Exception":
        return "raised %s at %s" % (obs["cls"], obs["site"])
    if ek != ok:
        return "kind %s != %s" % (ok, ek)
    if ek == "None":
        return None
    if ek == "Point":
        return None if pclose(obs["p"], pose.pt(exp["p"])) else "point differs"
    if ek == "Segment":
        a, b = pose.pt(exp["a"]), pose.pt(exp["b"])
        if (pclose(obs["a"], a) and pclose(obs["b"], b)) or (pclose(obs["a"], b) and pclose(obs["b"], a)):
            return None
        return "endpoints differ"
    if ek == "HalfLine":
        if not pclose(obs["p"], pose.pt(exp["p"])):
            return "origin differs"
        return None if parallel_dir(obs["u"], pose.vec(exp["u"]), oriented=True) else "direction differs"
    if ek == "Line":
        P, U = fl3(pose.pt(exp["p"])), pose.vec(exp["u"])
        if not parallel_dir(obs["u"], U):
            return "direction differs"
        d = (obs["p"][0] - P[0], obs["p"][1] - P[1], obs["p"][2] - P[2])
        u = fl3(U)
        if norm(cross(d, u)) > TOL * max(1.0, norm(d)) * norm(u):
            return "support point not on the line"
        return None
    if ek == "Plane":
        P, N = fl3(pose.pt(exp["p"])), fl3(pose.vec(exp["n"]))
        if not parallel_dir(obs["n"], N):
            return "normal differs"
        d = (obs["p"][0] - P[0], obs["p"][1] - P[1], obs["p"][2] - P[2])
        if abs(dot(d, N)) > TOL * max(1.0, norm(d)) * norm(N):
            return "point not on the plane"
        return None
    if ek == "Polygon":
        exp_cyc = [pose.pt(P) for P in exp["cyc"]]
        r = match_points(obs["cyc"], exp_cyc)
        if r:
            return "polygon vertices: " + r
        return None if is_rotation(obs["cyc"], exp_cyc) else "vertex cycle is not the convex cycle"
    if ek == "Polyhedron":
        exp_vs = [pose.pt(P) for P in exp["vs"]]
        r = match_points(obs["vs"], exp_vs)
        if r:
            return "polyhedron vertices: " + r
        if len(obs["fs"]) != len(exp["fs"]):
            return "face count %d != %d" % (len(obs["fs"]), len(exp["fs"]))
        left = [[pose.pt(P) for P in f["cyc"]] for f in exp["fs"]]
        for f in obs["fs"]:
            for i, g in enumerate(left):
                if match_points(f["cyc"], g) is None:
                    del left[i]
                    break
            else:
                return "unexpected face"
        ne = sum(len(f["cyc"]) for f in exp["fs"]) // 2
        if obs["ne"] != ne:
            return "edge count %d != %d" % (obs["ne"], ne)
        return None
    return "unsupported expected kind " + ek


def sqrt_rat(q, lam=Fr(1)):
    """sqrt of the rational <<n,d>> times lam, as float via 50-digit decimals"""
    v = Fr(q[0], q[1]) * lam * lam
    return float((Decimal(v.numerator) / Decimal(v.denominator)).sqrt())
