"""Generic check engine: run TLC jobs, stream their cases to a pool of replay workers that
drive the real library, aggregate verdicts, apply the known-findings file, write evidence.

Exit codes of a check: 0 = property held on everything explored (KNOWN-FINDING lines
allowed), 1 = at least one VIOLATION line, 2 = machinery failure (never a verdict).
"""
import hashlib
import importlib
import json
import multiprocessing as mp
import os
import random
import subprocess
import sys
import time

HERE = os.path.dirname(os.path.abspath(__file__))
VERIF = os.path.dirname(HERE)
if HERE not in sys.path:
    sys.path.insert(0, HERE)

import tlcio  # noqa: E402

VARY_PROPS = {"C01", "C02", "C04", "C05", "C10", "C11", "C12", "C13", "C20", "C07"}   # direction / normal vectors are rescaled and negated at random
NPROC = int(os.environ.get("VERIF_NPROC", "16"))
BATCH = 400


def prop_module(prop):
    return importlib.import_module("props.%s" % prop.lower())


# ------------------------------------------------------------------------------------------
# worker side
def _init_worker():
    import geom  # noqa: F401  (imports the library once per worker)


def _replay_batch(args):
    prop, tag, lines, tier, seed = args
    mod = prop_module(prop)
    out = {"n": 0, "classes": {}, "mism": [], "skipped": {}, "nontrivial": 0, "samples": [], "calls": 0}
    for line in lines:
        case = tlcio.parse_case(line) if isinstance(line, str) else line
        h = int(hashlib.sha1(json.dumps(case, sort_keys=True).encode()).hexdigest()[:12], 16)
        rng = random.Random(h ^ (seed * 1000003))
        try:
            import geom
            geom.VARY = random.Random(h + 7) if prop in VARY_PROPS else None
            geom.G.set_eps()            # every case starts from the default tolerance (a leaked setting must not spread)
            res = mod.replay_case(case, tag, rng, tier)
        except Exception as e:   # noqa: BLE001
            import traceback
            tb = traceback.extract_tb(e.__traceback__)
            if tb and "Geometry3D" in tb[-1].filename:
                # the LIBRARY raised on a valid case outside a guarded call (e.g. while an operand was being built or moved
                # into place): that is an observation about the library, not a failure of the machinery
                site = "%s:%s" % (os.path.basename(tb[-1].filename), tb[-1].name)
                out["n"] += 1
                out["mism"].append({"prop": prop, "tag": tag, "case": case, "clause": "%s.library_exception" % prop,
                                    "sig": {"op": "replay", "obs": "raise:%s@%s" % (type(e).__name__, site)},
                                    "detail": "the library raised %s at %s while the case was being set up: %s" % (type(e).__name__, site, str(e)[:100]),
                                    "expected": None, "observed": {"k": "Exception", "cls": type(e).__name__, "site": site}, "pose": None})
                continue
            # a crash of the harness itself is a machinery failure
            out.setdefault("harness_errors", []).append(traceback.format_exc()[-1500:])
            continue
        out["n"] += 1
        out["calls"] += res.get("calls", 0)
        ck = res.get("cls", "?")
        out["classes"][ck] = out["classes"].get(ck, 0) + 1
        if res.get("nontrivial"):
            out["nontrivial"] += 1
        for r, c in res.get("skipped", {}).items():
            out["skipped"][r] = out["skipped"].get(r, 0) + c
        for m in res.get("mism", []):
            m.setdefault("prop", prop)
            m["tag"] = tag
            m["case"] = case
            out["mism"].append(m)
        if len(out["samples"]) < 1 and res.get("sample") is not None:
            out["samples"].append(res["sample"])
    return out


# ------------------------------------------------------------------------------------------
def repo_state():
    try:
        head = subprocess.run(["git", "-C", os.environ.get("G3D_REPO", "/repo"), "rev-parse", "HEAD"],
                              capture_output=True, text=True).stdout.strip()
        dirty = bool(subprocess.run(["git", "-C", os.environ.get("G3D_REPO", "/repo"), "status", "--porcelain",
                                     "--untracked-files=no"], capture_output=True, text=True).stdout.strip())
    except Exception:  # noqa: BLE001
        head, dirty = "?", False
    return head, dirty


def load_findings():
    p = os.path.join(VERIF, "known_findings.json")
    if not os.path.exists(p):
        return []
    with open(p) as f:
        return json.load(f).get("findings", [])


def sig_matches(entry, m):
    if entry.get("status") != "known" or entry.get("property") != m["prop"]:
        return False
    want = entry.get("match", {})
    sig = dict(m.get("sig", {}))
    sig["clause"] = m.get("clause")
    for k, v in want.items():
        have = sig.get(k)
        if isinstance(v, list):
            if have not in v:
                return False
        elif have != v:
            return False
    return True


class Result:
    def __init__(self, prop, tier, seed):
        self.prop, self.tier, self.seed = prop, tier, seed
        self.t0 = time.time()
        self.states = 0
        self.distinct = 0
        self.cases = 0
        self.calls = 0
        self.nontrivial = 0
        self.classes = {}
        self.skipped = {}
        self.mism = []
        self.sig_counts = {}
        self.nmism = 0
        self.samples = []
        self.jobs = []
        self.harness_errors = []
        self.extra = {}
        self.exhaustive = None

    def absorb(self, out):
        self.cases += out["n"]
        self.calls += out["calls"]
        self.nontrivial += out["nontrivial"]
        for k, v in out["classes"].items():
            self.classes[k] = self.classes.get(k, 0) + v
        for k, v in out["skipped"].items():
            self.skipped[k] = self.skipped.get(k, 0) + v
        for m in out["mism"]:
            sk = json.dumps([m.get("clause"), m.get("sig")], sort_keys=True, default=str)
            c = self.sig_counts.get(sk, 0)
            self.sig_counts[sk] = c + 1
            if c < 6:
                self.mism.append(m)
        self.nmism += len(out["mism"])
        if len(self.samples) < 3:
            self.samples.extend(out["samples"][: 3 - len(self.samples)])
        self.harness_errors.extend(out.get("harness_errors", []))


def run_jobs(res, jobs, pool):
    """each job: dict(module, constants, invariants, tag, [simulate, depth, timeout, workers])"""
    for job in jobs:
        cfg = tlcio.make_cfg(job["constants"], job.get("invariants", ()), job.get("properties", ()),
                             spec=job.get("spec", "Spec"), extra=job.get("cfg_extra", ()))
        run = tlcio.TLCRun(job["module"], cfg, workers=job.get("workers", 16), timeout_s=job.get("timeout", 1800),
                           simulate=job.get("simulate"), depth=job.get("depth"), seed=job.get("tlc_seed"),
                           heap=job.get("heap"))
        tag = job.get("tag", "")
        pending = []
        batch = []

        def flush():
            nonlocal batch
            if batch:
                pending.append(pool.apply_async(_replay_batch, ((res.prop, tag, batch, res.tier, res.seed),)))
                batch = []

        limit = job.get("max_cases")
        n = 0
        for line in run.raw_lines():
            if limit is not None and n >= limit:
                continue
            n += 1
            batch.append(line)
            if len(batch) >= job.get("batch", BATCH):
                flush()
                while len(pending) > 4 * NPROC:
                    res.absorb(pending.pop(0).get())
        flush()
        for p in pending:
            res.absorb(p.get())
        run.require_ok()
        res.states += run.stats["states"]
        res.distinct += run.stats["distinct"]
        res.jobs.append({"module": job["module"], "tag": tag, "constants": {k: (sorted(v) if isinstance(v, (set, frozenset)) else v)
                                                                            for k, v in job["constants"].items()},
                         "invariants": list(job.get("invariants", ())), "states": run.stats["states"],
                         "distinct": run.stats["distinct"], "cases_emitted": run.ncases, "wall_s": round(run.wall, 1)})


def digest(m):
    key = json.dumps({"case": m.get("case"), "clause": m.get("clause"), "pose": m.get("pose")}, sort_keys=True, default=str)
    return hashlib.sha1(key.encode()).hexdigest()[:12]


def report(res, level="model_checking", rule="", assumptions=(), invariants_note=""):
    """print KNOWN-FINDING / VIOLATION lines, write replay files and the evidence file; return exit code"""
    findings = load_findings()
    head, dirty = repo_state()
    known_hit = {}
    violations = []
    seen_sig = set()
    for m in res.mism:
        m["_count"] = res.sig_counts.get(json.dumps([m.get("clause"), m.get("sig")], sort_keys=True, default=str), 1)
        hit = None
        for e in findings:
            if sig_matches(e, m):
                hit = e
                break
        sk = json.dumps([m.get("clause"), m.get("sig")], sort_keys=True, default=str)
        first = sk not in seen_sig
        seen_sig.add(sk)
        if hit is not None:
            if first:
                known_hit.setdefault(hit["id"], [hit, 0])[1] += m["_count"]
            continue
        if not first:
            continue
        violations.append(m)
    for hid, (e, cnt) in sorted(known_hit.items()):
        print("KNOWN-FINDING: property=%s %s [%s, %d occurrences this run]" % (e["property"], e["what"], hid, cnt))
    os.makedirs(os.path.join(VERIF, "replays"), exist_ok=True)
    nviol = 0
    for m in violations[:25]:
        path = os.path.join(VERIF, "replays", "%s-%s.json" % (res.prop, digest(m)))
        with open(path, "w") as f:
            json.dump({"property": res.prop, "tier": res.tier, "seed": res.seed, "repo_head": head, "repo_dirty": dirty,
                       "tag": m.get("tag"), "case": m.get("case"), "clause": m.get("clause"), "pose": m.get("pose"),
                       "expected": m.get("expected"), "observed": m.get("observed"), "detail": m.get("detail"),
                       "signature": m.get("sig")}, f, indent=1, default=str)
        print("VIOLATION property=%s replay=%s" % (res.prop, path))
        print("  clause=%s cases=%d detail=%s sig=%s" % (m.get("clause"), m.get("_count", 1), m.get("detail"), json.dumps(m.get("sig"), default=str)))
        nviol += 1
    if len(violations) > 25:
        print("  ... %d further violating cases not written out" % (len(violations) - 25))
    wall = time.time() - res.t0
    cov = {
        "states": max(res.distinct, 1), "transitions": max(res.states, 1),
        "traces_validated_against_impl": res.cases + res.extra.get("traces_code_to_spec", 0),
        "samples": res.samples[:3] or [{"note": "no case emitted"}],
        "evaluations": max(res.calls, res.cases, 1), "distinct_nontrivial": res.nontrivial,
        "rule": rule, "per_class_counts": dict(sorted(res.classes.items())), "skipped_by_filter": res.skipped,
        "tlc_jobs": res.jobs, "known_findings_matched": {k: v[1] for k, v in known_hit.items()},
        "spec_invariants_checked": invariants_note, "repo_head": head, "repo_dirty": dirty,
    }
    if res.exhaustive is not None:
        cov["exhaustive"] = res.exhaustive
    cov.update({k: v for k, v in res.extra.items()})
    ev = {"property_id": res.prop, "tier": res.tier, "seed": res.seed, "level": level, "coverage": cov,
          "assumptions": list(assumptions), "wall_s": round(wall, 1), "violations": sum(m.get("_count", 1) for m in violations)}
    if res.prop.startswith("C"):          # extras (X..) are not listed properties: no evidence file
        os.makedirs(os.path.join(VERIF, "evidence"), exist_ok=True)
        with open(os.path.join(VERIF, "evidence", "%s.json" % res.prop), "w") as f:
            json.dump(ev, f, indent=1, default=str)
    print("%s tier=%s seed=%d: %d TLC states, %d cases replayed (%d library calls), %d mismatching, %d known, %d violations, %.1fs"
          % (res.prop, res.tier, res.seed, res.distinct, res.cases, res.calls, res.nmism,
             sum(v[1] for v in known_hit.values()), len(violations), wall))
    if res.harness_errors:
        print("MACHINERY: %d harness errors, first:\n%s" % (len(res.harness_errors), res.harness_errors[0]))
        return 2
    return 1 if violations else 0


def make_pool():
    ctx = mp.get_context("fork")
    return ctx.Pool(NPROC, initializer=_init_worker)


def run_check(prop, tier, seed):
    mod = prop_module(prop)
    res = Result(prop, tier, seed)
    pool = make_pool()
    try:
        try:
            mod.run(res, pool, tier, seed)
        finally:
            pool.close()
            pool.join()
    except tlcio.MachineryError as e:
        print("MACHINERY FAILURE in %s: %s" % (prop, e))
        return 2
    return mod.finish(res)


def run_replay(path):
    with open(path) as f:
        rp = json.load(f)
    prop = rp["property"]
    mod = prop_module(prop)
    import geom  # noqa: F401
    case = rp["case"]
    h = int(hashlib.sha1(json.dumps(case, sort_keys=True).encode()).hexdigest()[:12], 16)
    rng = random.Random(h ^ (rp["seed"] * 1000003))
    geom.VARY = random.Random(h + 7) if prop in VARY_PROPS else None
    out = mod.replay_case(case, rp.get("tag", ""), rng, rp.get("tier", "quick"))
    ms = out.get("mism", [])
    findings = load_findings()
    bad = 0
    for m in ms:
        m.setdefault("prop", prop)
        known = any(sig_matches(e, m) for e in findings)
        print("%s clause=%s detail=%s expected=%s observed=%s" % ("KNOWN-FINDING:" if known else "MISMATCH", m.get("clause"),
                                                                  m.get("detail"), json.dumps(m.get("expected"), default=str)[:300],
                                                                  json.dumps(m.get("observed"), default=str)[:300]))
        if not known:
            bad += 1
    if bad:
        print("VIOLATION property=%s replay=%s" % (prop, path))
        return 1
    print("replay of %s: no unlisted mismatch" % path)
    return 0
