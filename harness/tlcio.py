"""Running TLC / SANY under `timeout`, streaming and parsing their output.

TLC is used in three roles (DESIGN section 5): model checking the specification, generating
cases/behaviours with expected observations (lines printed by `PrintT(ToJson(..))`), and
validating recorded traces.  This module only knows how to start the tools, where the
scratch directory lives, and how to read TLC's summary lines.
"""
import json
import os
import re
import shutil
import subprocess
import tempfile
import time

VERIF = os.path.dirname(os.path.dirname(os.path.abspath(__file__)))
SPEC = os.path.join(VERIF, "spec")
WORKROOT = os.path.join(VERIF, ".work")
JAR = "/opt/veriftools/tla/tla2tools.jar"
CMJAR = "/opt/veriftools/tla/CommunityModules-deps.jar"


class MachineryError(Exception):
    """TLC failed, overflowed, the spec violated one of its own invariants, output unparsable..."""


def workdir():
    os.makedirs(WORKROOT, exist_ok=True)
    return tempfile.mkdtemp(prefix="run-", dir=WORKROOT)


def cfg_value(v):
    """Render a Python value as a TLC cfg constant."""
    if isinstance(v, bool):
        return "TRUE" if v else "FALSE"
    if isinstance(v, int):
        if v < 0:
            raise ValueError("negative literal in cfg; define it in the module")
        return str(v)
    if isinstance(v, str):
        return '"%s"' % v
    if isinstance(v, (set, frozenset, list, tuple)):
        return "{" + ", ".join(cfg_value(x) for x in sorted(v, key=repr)) + "}"
    raise TypeError(v)


def make_cfg(constants, invariants=(), properties=(), spec="Spec", extra=()):
    lines = ["SPECIFICATION %s" % spec, "CONSTANTS"]
    for k, v in constants.items():
        if isinstance(v, str) and v.startswith("<-"):
            lines.append("  %s %s" % (k, v))
        else:
            lines.append("  %s = %s" % (k, cfg_value(v)))
    for i in invariants:
        lines.append("INVARIANT %s" % i)
    for p in properties:
        lines.append("PROPERTY %s" % p)
    lines.extend(extra)
    lines.append("CHECK_DEADLOCK FALSE")
    return "\n".join(lines) + "\n"


_STATES = re.compile(r"^(\d[\d,]*) states generated, (\d[\d,]*) distinct states found")


class TLCRun:
    """One TLC process.  Iterate over `.cases()` to receive the JSON values printed by the
    specification; afterwards `.stats` holds states/transitions and `.ok` says whether TLC
    finished without any error."""

    def __init__(self, module, cfg_text, workers=16, timeout_s=1800, simulate=None, depth=None,
                 seed=None, env=None, extra_args=(), coverage=False, heap=None):
        self.wd = workdir()
        self.module = module
        cfgpath = os.path.join(self.wd, "model.cfg")
        with open(cfgpath, "w") as f:
            f.write(cfg_text)
        modpath = module if os.path.isabs(module) else os.path.join(SPEC, "mc", module)
        cmd = ["timeout", str(int(timeout_s)), "java", "-XX:+UseParallelGC"]
        if heap:
            cmd.append("-Xmx%s" % heap)
        cmd += ["-cp", JAR + ":" + CMJAR,
                "-DTLA-Library=%s:%s" % (SPEC, os.path.join(SPEC, "mc")),
                "tlc2.TLC", "-workers", str(workers), "-metadir", os.path.join(self.wd, "meta"),
                "-noGenerateSpecTE", "-config", cfgpath]
        if simulate is not None:
            cmd += ["-simulate", simulate]
        if depth is not None:
            cmd += ["-depth", str(depth)]
        if seed is not None:
            cmd += ["-seed", str(seed)]
        if coverage:
            cmd += ["-coverage", "1"]
        cmd += list(extra_args)
        cmd.append(modpath)
        self.cmd = cmd
        e = dict(os.environ)
        if env:
            e.update(env)
        self.t0 = time.time()
        self.proc = subprocess.Popen(cmd, stdout=subprocess.PIPE, stderr=subprocess.STDOUT, cwd=self.wd,
                                     env=e, text=True, bufsize=1 << 20)
        self.log = []          # non-case lines
        self.stats = {"states": 0, "distinct": 0}
        self.ok = False
        self.error = None
        self.ncases = 0

    def raw_lines(self):
        """Yield raw case lines (JSON string literals) as TLC prints them."""
        for line in self.proc.stdout:
            if line.startswith('"{') or line.startswith('"['):
                self.ncases += 1
                yield line
            else:
                self._note(line)
        self._finish()

    def cases(self):
        for line in self.raw_lines():
            yield parse_case(line)

    def drain(self):
        for _ in self.raw_lines():
            pass
        return self

    def _note(self, line):
        line = line.rstrip("\n")
        if len(self.log) < 4000:
            self.log.append(line)
        m = _STATES.match(line)
        if m:
            self.stats["states"] = int(m.group(1).replace(",", ""))
            self.stats["distinct"] = int(m.group(2).replace(",", ""))
        if line.startswith("Error:") or "Overflow" in line or "is violated" in line or "Exception" in line:
            if self.error is None:
                self.error = line

    def _finish(self):
        rc = self.proc.wait()
        self.wall = time.time() - self.t0
        self.rc = rc
        done = any("Model checking completed. No error has been found." in l or
                   l.startswith("Finished in") for l in self.log)
        if rc == 124:
            self.error = self.error or "TLC timed out"
        self.ok = (rc == 0 and self.error is None and done)
        shutil.rmtree(self.wd, ignore_errors=True)

    def require_ok(self):
        if not self.ok:
            tail = "\n".join(self.log[-40:])
            raise MachineryError("TLC failed on %s (rc=%s): %s\n%s" % (self.module, getattr(self, "rc", None),
                                                                      self.error, tail))
        return self


def parse_case(line):
    """A PrintT(ToJson(v)) line is a JSON string literal whose content is JSON."""
    return json.loads(json.loads(line))


def sany(path):
    r = subprocess.run(["timeout", "120", "java", "-cp", JAR + ":" + CMJAR,
                        "-DTLA-Library=%s:%s" % (SPEC, os.path.join(SPEC, "mc")), "tla2sany.SANY", path],
                       stdout=subprocess.PIPE, stderr=subprocess.STDOUT, text=True, cwd=os.path.dirname(path))
    bad = r.returncode != 0 or "error" in r.stdout.lower().replace("semantic errors:\n\n", "")
    return (not bad), r.stdout


def cleanup_workroot():
    shutil.rmtree(WORKROOT, ignore_errors=True)


def run_tlaps(module, theorems, timeout_s=600):
    """check a TLAPS proof module in a private copy (tlapm writes its cache next to the module); returns a summary dict"""
    import re
    import shutil
    import time
    wd = workdir()
    try:
        shutil.copy(os.path.join(SPEC, module), wd)
        t0 = time.time()
        r = subprocess.run(["timeout", str(timeout_s), "tlapm", "--cleanfp", "--toolbox", "0", "0", module], capture_output=True, text=True, cwd=wd)
        txt = r.stdout + r.stderr
        mm = re.search(r"All (\d+) obligations? proved", txt)
        total = int(mm.group(1)) if mm else 0
        failed = txt.count("@!!status:failed")
        if r.returncode != 0 or not mm or failed:
            raise MachineryError("tlapm did not prove all obligations of %s: %s" % (module, txt[-800:]))
        return {"module": module, "obligations": total, "proved": total, "failed": failed, "wall_s": round(time.time() - t0, 1), "theorems": list(theorems)}
    finally:
        shutil.rmtree(wd, ignore_errors=True)
