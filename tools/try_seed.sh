#!/bin/bash
# usage: tools/try_seed.sh <ID> <check> [<check> ...]
# confirms a seeded change (tests pass with it, demo fails with it and passes without it) in its scratch worktree,
# then applies the patch to /repo, runs the given quick checks, and undoes it straight afterwards.
ID=$1; shift
WT=/tmp/wt/$ID
P=/tmp/wt/$ID.patch
set -u
cd $WT || exit 2
git diff -- Geometry3D > $P
echo "== patch: $(wc -l < $P) lines"
T=$(/venv/bin/python -m pytest -q -p no:cacheprovider unit_tests 2>&1 | tail -1); echo "tests with change: $T"
/venv/bin/python demo_$ID.py > /tmp/wt/$ID.demo_with.txt 2>&1; echo "demo with change: exit $?"
git stash -q -- Geometry3D; /venv/bin/python demo_$ID.py > /tmp/wt/$ID.demo_without.txt 2>&1; echo "demo without change: exit $?"; git stash pop -q
cd /verif
git -C /repo apply $P || { echo "patch does not apply to /repo"; exit 2; }
for c in "$@"; do
  ./check $c --tier quick > /tmp/wt/$ID.$c.out 2>&1; echo "check $c exit $?: $(grep -c '^VIOLATION' /tmp/wt/$ID.$c.out) violation lines; $(tail -1 /tmp/wt/$ID.$c.out | cut -c1-160)"
  grep "clause=" /tmp/wt/$ID.$c.out | head -4 | cut -c1-260
done
git -C /repo checkout -- .
git -C /repo status --short | head -3
rm -f /verif/replays/*.json
