#!/usr/bin/env python3
"""Regenerate MANIFEST.json from the table below (kept valid at all times)."""
import json
import os
import subprocess

V = os.path.dirname(os.path.dirname(os.path.abspath(__file__)))
props = [json.loads(l)["id"] for l in open(os.path.join(V, "properties.jsonl"))]

GEN = ("bounded-exhaustive exploration of an explicit TLA+ specification whose exact answers are the oracle (the specification's "
       "own cross-checks are TLC invariants on every state), bound to the implementation by replaying every TLC-generated case "
       "into the real library under several exact poses")
NOTE = ("trusted base: TLC/SANY, the hand-written L0 denotations, relation R and the object builders in harness/geom.py, the "
        "hash-boundary admission filter; universes are bounded (constants and counts are in the evidence file)")

CLAIMED = {}
PENDING = "check not built yet in this round (planned, see DESIGN.md section 8)"
NOT_APPLICABLE = {}

# optional extra table maintained by later edits
extra = os.path.join(V, "tools", "claimed.json")
if os.path.exists(extra):
    for k, v in json.load(open(extra)).items():
        CLAIMED[k] = tuple(v)

m = {
    "version": 1,
    "setup_cmd": "./check --setup",
    "hooks": {"guard": "G3D_VERIF",
              "enable": "no source hooks: harness/recorder.py wraps the public API from outside the source tree when G3D_VERIF=1",
              "baseline_off_cmd": "cd /repo && /venv/bin/python -m pytest -ra -q -p no:cacheprovider --timeout=900 --continue-on-collection-errors",
              "source_commits": [], "add_only": True},
    "engines": [{"name": "tlc+replay", "path": "/verif/check", "serves_properties": sorted(CLAIMED),
                 "kind_free_text": "explicit TLA+ specification (spec/*.tla) model-checked by TLC; TLC-generated cases and behaviours with "
                                   "exact expected observations replayed into the real library, and recorded traces validated by TLC (harness/)"}],
    "checks": [],
    "notes": "See DESIGN.md. Exit 2 of a check means machinery failure (never a verdict). known_findings.json lists fixed/known defects.",
    "not_applicable": [],
}
for p in props:
    if p in CLAIMED:
        tech, text, ref = CLAIMED[p]
        m["checks"].append({
            "property_id": p, "quick_cmd": "./check %s --tier quick" % p, "thorough_cmd": "./check %s --tier thorough" % p,
            "evidence_file": "/verif/evidence/%s.json" % p, "replay_cmd_template": "./check --replay {path}", "engine": "tlc+replay",
            "level_claimed": {"category": "model_checking", "text": text or GEN, "design_ref": ref},
            "level_note": NOTE, "technique": tech})
    else:
        m["not_applicable"].append({"property_id": p, "reason": NOT_APPLICABLE.get(p, PENDING)})
json.dump(m, open(os.path.join(V, "MANIFEST.json"), "w"), indent=1)
r = subprocess.run(["python3-vt", "-c", "import json,jsonschema;jsonschema.validate(json.load(open('%s/MANIFEST.json')),json.load(open('/root/.vp/MANIFEST.schema.json')));print('manifest valid, %d checks')" % (V, len(m["checks"]))])
